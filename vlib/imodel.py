"""L2 instrumented exec models and L3 line-level pre-emption.

IModel wraps the primitives execnet obtains from its ExecModel (Lock, RLock,
Event, queue.Queue).  Wrappers
  * perturb the schedule *between* critical sections (before acquire/wait/get,
    after release/set/put) with a seeded choice of nothing/yield/short sleep,
  * run registered invariant hooks inside release(), i.e. still under the
    code's own lock,
  * append (thread-role, op, object-role) to a schedule signature list.
"""

from __future__ import annotations

import queue as _queue
import random
import sys
import threading
import time

from execnet.gateway_base import MainThreadOnlyExecModel
from execnet.gateway_base import ThreadExecModel


class Sched:
    """Shared perturbation state for one run."""

    def __init__(self, seed: int, p_yield: float = 0.25, p_sleep: float = 0.08, max_sleep: float = 0.002,
                 record: bool = True):
        self.rng = random.Random(seed)
        self.p_yield = p_yield
        self.p_sleep = p_sleep
        self.max_sleep = max_sleep
        self.sig: list = []
        self.record = record
        self.enabled = True
        self.roles: dict[int, str] = {}
        self.hooks: dict[str, list] = {}
        self.nperturb = 0
        self._lock = threading.Lock()  # protects rng only; never held across a block

    def role(self) -> str:
        return self.roles.get(threading.get_ident(), "t")

    def set_role(self, name: str) -> None:
        self.roles[threading.get_ident()] = name

    def point(self, op: str, obj: str) -> None:
        if self.record and len(self.sig) < 20000:
            self.sig.append((self.role(), op, obj))
        if not self.enabled:
            return
        with self._lock:
            x = self.rng.random()
            d = self.rng.random()
        if x < self.p_sleep:
            self.nperturb += 1
            time.sleep(d * self.max_sleep)
        elif x < self.p_sleep + self.p_yield:
            self.nperturb += 1
            time.sleep(0)

    def signature(self):
        return tuple(self.sig)


class ILock:
    def __init__(self, sched: Sched, real, name: str):
        self._s = sched
        self._l = real
        self.name = name
        self._depth = 0

    def acquire(self, blocking=True, timeout=-1):
        self._s.point("acq", self.name)
        r = self._l.acquire(blocking, timeout)
        if r:
            self._depth += 1
        return r

    def release(self):
        self._depth -= 1
        if self._depth == 0:
            for h in self._s.hooks.get(self.name, ()):
                h()
        self._l.release()
        self._s.point("rel", self.name)

    def __enter__(self):
        self.acquire()
        return self

    def __exit__(self, *a):
        self.release()

    def _is_owned(self):
        return self._l._is_owned()


class IEvent:
    def __init__(self, sched: Sched, name: str):
        self._s = sched
        self._e = threading.Event()
        self.name = name

    def is_set(self):
        return self._e.is_set()

    isSet = is_set

    def set(self):
        self._e.set()
        self._s.point("set", self.name)

    def clear(self):
        self._e.clear()
        self._s.point("clr", self.name)

    def wait(self, timeout=None):
        self._s.point("wait", self.name)
        return self._e.wait(timeout)


class IQueue(_queue.Queue):
    _sched: Sched | None = None

    def put(self, item, block=True, timeout=None):
        super().put(item, block, timeout)
        if self._sched is not None:
            self._sched.point("put", "q")

    def get(self, block=True, timeout=None):
        if self._sched is not None:
            self._sched.point("get", "q")
        return super().get(block, timeout)


class _QueueMod:
    Empty = _queue.Empty
    Full = _queue.Full

    def __init__(self, sched: Sched):
        self._sched = sched

    def Queue(self, *a, **k):
        q = IQueue(*a, **k)
        q._sched = self._sched
        return q


class _IMixin:
    def __init__(self, sched: Sched):
        self.sched = sched
        self._n = 0
        self._qmod = _QueueMod(sched)

    @property
    def queue(self):
        return self._qmod

    def _name(self, kind: str) -> str:
        # name by creation site in execnet (function name) so roles are stable across runs
        f = sys._getframe(2)
        owner = f.f_locals.get("self")
        on = type(owner).__name__ + "." if owner is not None else ""
        return f"{kind}@{on}{f.f_code.co_name}"

    def Lock(self):
        return ILock(self.sched, threading.RLock(), self._name("L"))

    def RLock(self):
        return ILock(self.sched, threading.RLock(), self._name("R"))

    def Event(self):
        return IEvent(self.sched, self._name("E"))

    def start(self, func, args=()):
        sched = self.sched
        role = "w:" + getattr(func, "__name__", "f")

        def run():
            sched.set_role(role)
            func(*args)

        import _thread

        sched.point("start", role)
        _thread.start_new_thread(run, ())


class IThreadModel(_IMixin, ThreadExecModel):
    backend = "thread"


class IMainThreadOnlyModel(_IMixin, MainThreadOnlyExecModel):
    backend = "main_thread_only"


def imodel(backend: str, sched: Sched):
    return IThreadModel(sched) if backend == "thread" else IMainThreadOnlyModel(sched)


# ---------------------------------------------------------------------------
# L3: line-level pre-emption via sys.monitoring

TOOL = 3


class Preempt:
    """Yield/stall injection at bytecode line boundaries of execnet code only.

    modes:
      noise(p)                 each line event: sleep(0) with probability p
      pct(points, stall)       at the given global event indices the running
                               thread sleeps `stall` seconds
      sweep(code, line, k)     the k-th time any thread reaches (code, line)
                               it sleeps `stall` seconds
    """

    def __init__(self, prefix: str):
        self.prefix = prefix
        self.mode = None
        self.nevents = 0
        self.ninject = 0
        self.rng = random.Random(0)
        self.p = 0.0
        self.points: set[int] = set()
        self.stall = 0.02
        self.target = None  # (filename, lineno)
        self.k = 1
        self.hits = 0
        self.fired = False
        self.active = False
        self.only_codes: set | None = None
        self.exclude_threads: set[int] = set()

    def install(self) -> None:
        mon = sys.monitoring
        try:
            mon.use_tool_id(TOOL, "verif-preempt")
        except ValueError:
            pass
        mon.register_callback(TOOL, mon.events.LINE, self._line)
        mon.set_events(TOOL, mon.events.LINE)
        self.active = True

    def uninstall(self) -> None:
        mon = sys.monitoring
        self.active = False
        try:
            mon.set_events(TOOL, 0)
            mon.register_callback(TOOL, mon.events.LINE, None)
            mon.free_tool_id(TOOL)
        except ValueError:
            pass

    def restart(self) -> None:
        """re-enable events that returned DISABLE (needed when the target changes)"""
        sys.monitoring.restart_events()

    def set_noise(self, seed: int, p: float) -> None:
        self.mode = "noise"
        self.rng = random.Random(seed)
        self.p = p
        self.nevents = 0

    def set_pct(self, seed: int, horizon: int, d: int, stall: float = 0.02) -> None:
        self.mode = "pct"
        r = random.Random(seed)
        self.points = {r.randrange(max(1, horizon)) for _ in range(d)}
        self.stall = stall
        self.nevents = 0

    def set_sweep(self, filename: str, lineno: int, k: int, stall: float = 0.03) -> None:
        self.mode = "sweep"
        self.target = (filename, lineno)
        self.k = k
        self.hits = 0
        self.fired = False
        self.stall = stall
        self.nevents = 0

    def off(self) -> None:
        self.mode = None

    def _line(self, code, lineno):
        if not code.co_filename.startswith(self.prefix):
            return sys.monitoring.DISABLE
        mode = self.mode
        if mode is None:
            return None
        if self.exclude_threads and threading.get_ident() in self.exclude_threads:
            return None
        self.nevents += 1
        if mode == "noise":
            if self.rng.random() < self.p:
                self.ninject += 1
                time.sleep(0)
        elif mode == "pct":
            if self.nevents in self.points:
                self.ninject += 1
                time.sleep(self.stall)
        elif mode == "sweep":
            if not self.fired and lineno == self.target[1] and code.co_filename == self.target[0]:
                self.hits += 1
                if self.hits == self.k:
                    self.fired = True
                    self.ninject += 1
                    time.sleep(self.stall)
        return None


def function_lines(*funcs) -> list[tuple[str, int]]:
    """All (filename, lineno) statement lines of the given functions/classes
    (located through the live code objects, so it follows edits)."""
    import inspect

    out: set[tuple[str, int]] = set()

    def add_code(co):
        for _s, _e, ln in co.co_lines():
            if ln is not None and ln != co.co_firstlineno:
                out.add((co.co_filename, ln))
        for c in co.co_consts:
            if hasattr(c, "co_lines"):
                add_code(c)

    for f in funcs:
        if inspect.isclass(f):
            for v in vars(f).values():
                v = getattr(v, "__func__", v)
                if hasattr(v, "__code__"):
                    add_code(v.__code__)
                elif isinstance(v, property) and v.fget is not None:
                    add_code(v.fget.__code__)
        else:
            f = getattr(f, "__func__", f)
            add_code(f.__code__)
    return sorted(out)
