"""Shared harness for the channel-history properties (C02, C03, C07, C10, C18).

A Lab owns an in-process gateway pair (real Gateway + real WorkerGateway over a
real pipe or TCP connection), an instrumented exec model, optional line-level
pre-emption, a monotonic event clock and a registry through which remote code
(which runs in this very process) hands its Channel/Gateway objects to the
harness.  Histories are recorded at the API boundary: call event before the
call, return event after it.
"""

from __future__ import annotations

import gc
import itertools
import threading
import time

from . import imodel
from . import pairs

LABS: dict[int, "Lab"] = {}
_labids = itertools.count(1)

PARK = """
import vlib.chanlab as _L
_lab = _L.LABS[%d]
_lab.remote_gateway = channel.gateway
_lab.control_remote = channel
_lab.parked_in.set()
while not _lab.unpark.wait(60):   # (a lab may be in use for much longer than a minute in the thorough tier)
    pass
"""

EXEC_ENDPOINT = """
import vlib.chanlab as _L
_lab = _L.LABS[%d]
_slot = _lab.slots[%d]
_slot["rc"] = channel
_slot["ready"].set()
_slot["finish"].wait(60)
_hook = _slot.get("at_end")
if _hook is not None:
    _hook(channel)
del _slot, _lab
"""


class Lab:
    def __init__(self, transport="pipe", sched_seed=0, worker_backend="thread", tee=True,
                 p_yield=0.25, p_sleep=0.08, perturb=True):
        self.id = next(_labids)
        LABS[self.id] = self
        self.sched = imodel.Sched(sched_seed, p_yield=p_yield if perturb else 0.0, p_sleep=p_sleep if perturb else 0.0)
        self.pair = pairs.Pair(transport, tee=tee, worker_backend=worker_backend, sched=self.sched)
        self.gw = self.pair.gw
        self.clock = itertools.count()
        self.ev: list = []
        self.parked_in = threading.Event()
        self.unpark = threading.Event()
        self.slots: dict[int, dict] = {}
        self._slotids = itertools.count(1)
        self.remote_gateway = None
        self.control_remote = None
        self.control_local = self.gw.remote_exec(PARK % self.id)
        if not self.parked_in.wait(10):
            raise RuntimeError("lab: control body did not start")

    # -- event log
    def log(self, *e):
        self.ev.append((next(self.clock),) + e)

    # -- endpoints: returns (local_channel, remote_channel)
    def pair_newchannel_local(self):
        """created by the initiator's newchannel(), passed over the control channel"""
        lc = self.gw.newchannel()
        self.control_local.send(lc)
        rc = self.control_remote.receive(10)
        return lc, rc

    def pair_newchannel_remote(self):
        """created by the worker's newchannel(), passed over the control channel"""
        rc = self.remote_gateway.newchannel()
        self.control_remote.send(rc)
        lc = self.control_local.receive(10)
        return lc, rc

    def pair_remote_exec(self, at_end=None):
        """local end from remote_exec; the remote body parks until finish is set.
        Returns (lc, rc, finish_event)."""
        sid = next(self._slotids)
        slot = {"ready": threading.Event(), "finish": threading.Event(), "at_end": at_end}
        self.slots[sid] = slot
        lc = self.gw.remote_exec(EXEC_ENDPOINT % (self.id, sid))
        if not slot["ready"].wait(10):
            raise RuntimeError("lab: exec endpoint did not start")
        rc = slot.pop("rc")
        return lc, rc, slot["finish"]

    def close(self):
        self.unpark.set()
        for s in self.slots.values():
            s["finish"].set()
        ok = self.pair.close(5.0)
        LABS.pop(self.id, None)
        return ok

    # -- wire order as seen by each side's single receiver thread
    def wire_frames(self, side: str):
        from ref import codec

        io = self.pair.io_a if side == "local" else self.pair.io_b
        frames, rest = codec.parse_frames(io.read_stream())
        return frames, rest


def quiesce(pred, timeout=5.0):
    """poll pred with gc.collect() (un-registration is asynchronous w.r.t. the peer)"""
    t0 = time.monotonic()
    while True:
        gc.collect()
        if pred():
            return True
        if time.monotonic() - t0 > timeout:
            return False
        time.sleep(0.005)


class Collector:
    """receiving end in one of the modes receive / iter / callback / compete(n)"""

    def __init__(self, lab: Lab, channel, mode: str, name: str, nthreads: int = 1, endmarker="__END__", timeout=15.0):
        self.lab = lab
        self.ch = channel
        self.mode = mode
        self.name = name
        self.items: list = []  # (clock, receiver index, item)
        self.ends: list = []  # (receiver index, how)
        self.threads = []
        self.endmarker = endmarker
        self.timeout = timeout
        if mode == "callback":
            def cb(item, self=self):
                if item == self.endmarker and isinstance(item, str):
                    self.ends.append((0, "endmarker"))
                else:
                    self.items.append((next(lab.clock), 0, item))
            channel.setcallback(cb, endmarker=endmarker)
        else:
            n = nthreads if mode == "compete" else 1
            for i in range(n):
                t = threading.Thread(target=self._loop, args=(i,), daemon=True)
                self.threads.append(t)
                t.start()

    def _loop(self, i):
        self.lab.sched.set_role(f"rcv-{self.name}-{i}")
        ch = self.ch
        try:
            if self.mode == "iter":
                for item in ch:
                    self.items.append((next(self.lab.clock), i, item))
                self.ends.append((i, "StopIteration"))
            elif self.mode == "poll":
                # a consumer that polls with a short timeout (an event loop, a supervisor with other things to do)
                t_end = time.monotonic() + self.timeout
                while True:
                    try:
                        item = ch.receive(0.02)
                    except ch.TimeoutError:
                        if time.monotonic() > t_end:
                            raise
                        continue
                    t_end = time.monotonic() + self.timeout
                    self.items.append((next(self.lab.clock), i, item))
            else:
                while True:
                    item = ch.receive(self.timeout)
                    self.items.append((next(self.lab.clock), i, item))
        except EOFError:
            self.ends.append((i, "EOFError"))
        except BaseException as e:  # noqa
            self.ends.append((i, type(e).__name__ + ": " + str(e)[:200]))

    def join(self, timeout=10.0) -> bool:
        ok = True
        t0 = time.monotonic()
        for t in self.threads:
            t.join(max(0.05, timeout - (time.monotonic() - t0)))
            ok &= not t.is_alive()
        return ok
