"""L1 value grammar for the serializer properties (C01, C06, C12, C13, C16).

canon(x) is a type-tagged normal form; equality of canons means "equal with the
same type at every position, dict order and float bit patterns preserved".
"""

from __future__ import annotations

import random
import struct
import sys

# NB: the interpreter-wide int/str digit limit is deliberately left alone: lifting it
# here would mask how the code under test behaves for huge ints.

INT_BOUNDARY = []
for _b in (0, 1, 2, 127, 128, 255, 256, 2**15, 2**16, 2**31 - 2, 2**31 - 1, 2**31, 2**31 + 1,
           2**32 - 1, 2**32, 2**32 + 1, 2**63 - 1, 2**63, 2**63 + 1, 2**64, 2**64 + 1, 10**9, 10**10,
           10**18, 10**19, 10**100):
    INT_BOUNDARY += [_b, -_b]
INT_BOUNDARY = sorted(set(INT_BOUNDARY))

FLOAT_BITS = [
    0x0000000000000000, 0x8000000000000000,  # +-0.0
    0x7FF0000000000000, 0xFFF0000000000000,  # +-inf
    0x7FF8000000000000, 0xFFF8000000000000,  # quiet NaNs
    0x7FF8000000000001, 0x7FF4000000000000, 0x7FF0000000000001, 0xFFFFFFFFFFFFFFFF,  # payload NaNs
    0x0000000000000001, 0x000FFFFFFFFFFFFF, 0x0010000000000000,  # subnormal / min normal
    0x7FEFFFFFFFFFFFFF, 0xFFEFFFFFFFFFFFFF,  # extremes
    0x3FF0000000000000, 0xBFF0000000000000, 0x3FB999999999999A, 0x400921FB54442D18,
    0x4340000000000000, 0x41DFFFFFFFC00000, 0x41E0000000000000,  # 2**53, 2**31-1, 2**31 as float
]

STR_BOUNDARY = [
    "", "\x00", "a", "\x7f", "\x80", "\u07ff", "\u0800", "\ud7ff", "\ue000", "\uffff", "\U00010000",
    "\U0010ffff", "a\x00b", "\n", "\r\n", "L", "123L", "\xe9", "\xff\xfe", "\u65e5\u672c\u8a9e",
    "\U0001d11e\U0001d11e", " ", "Q", "N\x00\x00\x00\x01", "'\"\\",
    # characters a codec or a text layer may treat specially at the start or end of a string
    "\ufeff", "\ufeffname", "name\ufeff", "\ufeff\ufeff", "\ufffe", "\u2028", "\u2029x", "\x85", "\x1a", "\tx", "x\t", " x ", "x\n", "\nx", "\r",
    "e\u0301", "\u00e9", "\u212b", "\ufb01",  # normalisation pairs: equal only after NFC/NFKC, which nobody asked for
]

BYTES_BOUNDARY = [b"", b"\x00", b"Q", bytes(range(256)), b"\xff" * 3, b"N\x00\x00\x00\x01a", b"\x02Q"]


def f_from_bits(bits: int) -> float:
    return struct.unpack("!d", struct.pack("!Q", bits))[0]


def fbits(x: float) -> bytes:
    return struct.pack("!d", x)


def canon(x):
    t = type(x)
    if x is None:
        return ("none",)
    if t is bool:
        return ("bool", x)
    if t is int:
        return ("int", hex(x))  # hex: exact, and immune to the str-digit limit
    if t is float:
        return ("float", fbits(x))
    if t is complex:
        return ("complex", fbits(x.real), fbits(x.imag))
    if t is str:
        return ("str", x)
    if t is bytes:
        return ("bytes", x)
    if t is list:
        return ("list", tuple(canon(i) for i in x))
    if t is tuple:
        return ("tuple", tuple(canon(i) for i in x))
    if t is dict:
        return ("dict", tuple((canon(k), canon(v)) for k, v in x.items()))
    if t is set:
        return ("set", tuple(sorted((canon(i) for i in x), key=repr)))
    if t is frozenset:
        return ("frozenset", tuple(sorted((canon(i) for i in x), key=repr)))
    return ("UNSUPPORTED", t.__module__ + "." + t.__qualname__)


def has_unsupported(c) -> bool:
    if isinstance(c, tuple):
        if c and c[0] == "UNSUPPORTED":
            return True
        return any(has_unsupported(i) for i in c)
    return False


def has_nan(x) -> bool:
    t = type(x)
    if t is float:
        return x != x
    if t is complex:
        return x.real != x.real or x.imag != x.imag
    if t in (list, tuple, set, frozenset):
        return any(has_nan(i) for i in x)
    if t is dict:
        return any(has_nan(k) or has_nan(v) for k, v in x.items())
    return False


LEAF_KINDS = ["none", "bool", "int_small", "int_boundary", "int_big", "int_huge", "float", "complex",
              "str", "bytes"]
CONTAINER_KINDS = ["list", "tuple", "dict", "set", "frozenset"]


class Gen:
    """Seeded recursive value generator with per-class production counts."""

    def __init__(self, rng, max_bytes: int = 4096, huge_ints: bool = True, max_depth: int = 6):
        self.r = rng
        self.counts: dict[str, int] = {}
        self.max_bytes = max_bytes
        self.huge_ints = huge_ints
        self.max_depth = max_depth
        self.pool: list = []  # finished containers, re-used to build values in which one object occurs at several positions

    def _c(self, k: str) -> None:
        self.counts[k] = self.counts.get(k, 0) + 1

    # -- leaves
    def gen_int(self) -> int:
        r = self.r
        k = r.random()
        if k < 0.25:
            self._c("int_small")
            return r.randint(-300, 300)
        if k < 0.6:
            self._c("int_boundary")
            return r.choice(INT_BOUNDARY) + r.choice((0, 0, 0, 1, -1))
        if k < 0.93 or not self.huge_ints:
            self._c("int_big")
            if r.random() < 0.12:
                # round decimal numbers with hundreds or thousands of digits (still below the interpreter's 4300 digit
                # conversion limit): long runs of zero digits, values just beside a power of ten
                n = 10 ** r.choice((18, 19, 100, 599, 600, 601, 1199, 1200, 1801, 2400, 4000))
                n = r.choice((n, n + r.randint(1, 9), n - 1, n * r.randint(2, 9), n + 10 ** r.choice((1, 17, 300)) if n > 10 ** 400 else n + 7))
                return n if r.random() < 0.5 else -n
            n = r.getrandbits(r.choice((31, 32, 33, 40, 63, 64, 65, 128, 500)))
            return n if r.random() < 0.5 else -n
        self._c("int_huge")
        n = r.getrandbits(r.choice((14000, 14300, 15000, 20000)))  # crosses the 4300 digit str limit
        return n if r.random() < 0.5 else -n

    def gen_float(self) -> float:
        r = self.r
        self._c("float")
        k = r.random()
        if k < 0.5:
            return f_from_bits(r.choice(FLOAT_BITS))
        if k < 0.8:
            return f_from_bits(r.getrandbits(64))
        return r.uniform(-1e6, 1e6)

    def gen_complex(self) -> complex:
        self._c("complex")
        self.counts["float"] = self.counts.get("float", 0) - 2
        return complex(self.gen_float(), self.gen_float())

    def gen_str(self) -> str:
        r = self.r
        self._c("str")
        k = r.random()
        if k < 0.35:
            return r.choice(STR_BOUNDARY)
        n = r.choice((1, 2, 3, 5, 17, 100)) if k < 0.95 else r.randint(min(200, self.max_bytes), self.max_bytes)
        out = []
        if r.random() < 0.08:
            out.append(r.choice("\ufeff\ufffe\u2028\x00\t \n"))  # a special first character
        for _ in range(n):
            p = r.random()
            if p < 0.5:
                out.append(chr(r.randint(0, 127)))
            elif p < 0.7:
                out.append(chr(r.randint(128, 0x7FF)))
            elif p < 0.9:
                c = r.randint(0x800, 0xFFFF)
                if 0xD800 <= c <= 0xDFFF:
                    c = 0xE000
                out.append(chr(c))
            else:
                out.append(chr(r.randint(0x10000, 0x10FFFF)))
        return "".join(out)

    def gen_bytes(self) -> bytes:
        r = self.r
        self._c("bytes")
        k = r.random()
        if k < 0.35:
            return r.choice(BYTES_BOUNDARY)
        n = r.choice((1, 2, 3, 4, 5, 8, 9, 31, 257)) if k < 0.95 else r.randint(min(300, self.max_bytes), self.max_bytes)
        return r.randbytes(n)

    def leaf(self):
        r = self.r
        k = r.random()
        if k < 0.06:
            self._c("none")
            return None
        if k < 0.16:
            self._c("bool")
            return r.random() < 0.5
        if k < 0.46:
            return self.gen_int()
        if k < 0.62:
            return self.gen_float()
        if k < 0.68:
            return self.gen_complex()
        if k < 0.86:
            return self.gen_str()
        return self.gen_bytes()

    def hashable(self, depth: int = 0):
        """A hashable value (for dict keys / set members); NaN-free so that
        equality-based containers stay well-defined."""
        r = self.r
        k = r.random()
        if depth < 2 and k < 0.12:
            self._c("tuple")
            return tuple(self.hashable(depth + 1) for _ in range(r.randint(0, 3)))
        if depth < 2 and k < 0.18:
            self._c("frozenset")
            return frozenset(self.hashable(depth + 1) for _ in range(r.randint(0, 3)))
        while True:
            v = self.leaf()
            if not has_nan(v):
                return v

    def value(self, depth: int = 0):
        v = self._value(depth)
        if type(v) in (list, dict, tuple, set, frozenset) and len(self.pool) < 50:
            self.pool.append(v)
        elif type(v) in (list, dict) and self.r.random() < 0.2:
            self.pool[self.r.randrange(len(self.pool))] = v
        return v

    def _value(self, depth: int = 0):
        r = self.r
        if depth > 0 and self.pool and r.random() < 0.08:
            # the very same (finished, hence acyclic) object at another position: shared, not copied
            self._c("aliased")
            return r.choice(self.pool)
        if depth >= self.max_depth or r.random() < 0.35 + 0.1 * depth:
            return self.leaf()
        kind = r.choice(CONTAINER_KINDS)
        self._c(kind)
        n = r.choice((0, 1, 1, 2, 3, 5, 9)) if depth else r.choice((0, 1, 2, 3, 5, 9, 30))
        if kind == "list":
            return [self.value(depth + 1) for _ in range(n)]
        if kind == "tuple":
            return tuple(self.value(depth + 1) for _ in range(n))
        if kind == "dict":
            d = {}
            for _ in range(n):
                d[self.hashable()] = self.value(depth + 1)
            return d
        if kind == "set":
            return {self.hashable() for _ in range(n)}
        return frozenset(self.hashable() for _ in range(n))

    def special(self, i: int):
        """Deterministic hand-picked shapes (index i cycles through them)."""
        r = self.r
        shapes = [
            lambda: [True, 1, 1.0, False, 0, 0.0, -0.0],
            lambda: (True, 1, 1.0),
            lambda: {1: "int", "1": "str", b"1": "bytes", (1,): "tuple", frozenset([1]): "fs"},
            lambda: {True: "bool-key"},
            lambda: {1.0: "float-key", 2: 2.0},
            lambda: {"z": 1, "a": 2, "m": 3, "b": 4},  # insertion order != sorted
            lambda: {3: 0, 1: 0, 2: 0},
            lambda: [[], (), {}, set(), frozenset(), "", b"", None],
            lambda: self._nest(r.choice((10, 50, 100, 150)), r.choice(("list", "tuple", "dict", "mix"))),
            lambda: [f_from_bits(b) for b in FLOAT_BITS],
            lambda: [complex(f_from_bits(a), f_from_bits(b)) for a in FLOAT_BITS[:8] for b in FLOAT_BITS[:6]],
            lambda: list(INT_BOUNDARY),
            lambda: tuple(INT_BOUNDARY),
            lambda: {i: -i for i in INT_BOUNDARY[:20]},
            lambda: set(INT_BOUNDARY[:15]) | {"a", b"a", None, 2.5},
            lambda: frozenset([frozenset([frozenset()]), (), ((),)]),
            lambda: list(STR_BOUNDARY),
            lambda: "".join(chr(c) for c in range(0, 0x3000, 7)),
            lambda: [bytes([b]) for b in range(256)],
            lambda: ([None] * 40),
            lambda: {(1, (2, (3, frozenset([4])))): [{"k": ({1, 2}, frozenset("ab"))}]},
            lambda: [2**31 - 1, 2**31, -(2**31), -(2**31) - 1, -(2**31) + 1],
            lambda: {"a": {"b": {"c": {"d": [1, (2, {3: {4}})]}}}},
            lambda: (lambda row: [row, row, [row]])([1, 2, 3]),
            lambda: (lambda d: {"a": d, "b": d, "c": [d, (d,)]})({"k": [1]}),
            lambda: (lambda t: (t, t, {"x": t}))((1, [2])),
            lambda: (lambda e: [e, e, e])([]),
            lambda: (lambda s_: [s_, {"k": s_}])({1, 2}),
            # wide containers (the loader is a stack machine: tuples/sets push all their members first)
            lambda: tuple(range(r.choice((999, 1000, 1001, 1500, 5000)))),
            lambda: set(range(r.choice((1001, 1200, 3000)))),
            lambda: frozenset(range(-600, r.choice((600, 2000)))),
            lambda: list(range(r.choice((1001, 4000)))),
            lambda: {i: str(i) for i in range(r.choice((1001, 2500)))},
            lambda: {tuple(range(1100)): (frozenset(range(1100)), [set(range(1050))])},
            lambda: [tuple(range(40))] * 60,
            # payloads beyond 64 KiB (an implementation may read those piecewise)
            lambda: [b"b" * r.choice((65537, 100000)), "s" * 70000, {b"k" * 66000: "v" * 66000}],
        ]
        self._c("special")
        return shapes[i % len(shapes)]()

    def _nest(self, depth: int, how: str):
        v = self.leaf()
        for i in range(depth):
            h = how if how != "mix" else ("list", "tuple", "dict")[i % 3]
            if h == "list":
                v = [v]
            elif h == "tuple":
                v = (v,)
            else:
                v = {i: v}
        self._c("deep_nest")
        return v


# ---------------------------------------------------------------------------
# unsupported leaves


class _UserObj:
    pass


class _IntSub(int):
    pass


class _StrSub(str):
    pass


class _BytesSub(bytes):
    pass


class _FloatSub(float):
    pass


class _ListSub(list):
    pass


class _TupleSub(tuple):
    pass


class _DictSub(dict):
    pass


class _SetSub(set):
    pass


class _FrozensetSub(frozenset):
    __hash__ = frozenset.__hash__


class _ReprRaises:
    def __repr__(self):
        raise RuntimeError("this object cannot be shown")


class _ReprNotStr:
    def __repr__(self):
        return 42


class _StrRaises:
    def __str__(self):
        raise RuntimeError("no text for this object")


class _ClaimsToBeInt:
    __class__ = int  # isinstance(x, int) is True, type(x) is not int


class _GetattrRaises:
    def __getattr__(self, name):
        raise RuntimeError(f"no attribute lookups here ({name})")


class _BoolRaises:
    def __bool__(self):
        raise RuntimeError("neither true nor false")

    def __len__(self):
        raise RuntimeError("no length")


class _EqRaises:
    __hash__ = object.__hash__

    def __eq__(self, other):
        raise RuntimeError("not comparable")


def _named(name: str, base=object):
    return type(name, (base,), {})


_srng = random.Random(0xC01)


def _any_surrogate_str():
    """a short string with one lone surrogate from anywhere in U+D800..U+DFFF at a generated position"""
    body = [chr(_srng.choice((0x41, 0xE9, 0x65E5, 0x1F600))) for _ in range(_srng.randrange(0, 5))]
    body.insert(_srng.randrange(len(body) + 1), chr(_srng.randrange(0xD800, 0xE000)))
    return "".join(body)


def unsupported_leaves():
    """(label, factory, hashable) for values no part of which may be serialised."""
    import collections
    import decimal
    import enum
    import fractions

    class Color(enum.IntEnum):
        RED = 1

    NT = collections.namedtuple("NT", "a b")
    out = [
        ("object", object, True),
        ("user_instance", _UserObj, True),
        ("int_subclass", lambda: _IntSub(5), True),
        ("str_subclass", lambda: _StrSub("x"), True),
        ("bytes_subclass", lambda: _BytesSub(b"x"), True),
        ("float_subclass", lambda: _FloatSub(1.5), True),
        ("list_subclass", lambda: _ListSub([1]), False),
        ("tuple_subclass", lambda: _TupleSub((1,)), True),
        ("dict_subclass", lambda: _DictSub(a=1), False),
        ("set_subclass", lambda: _SetSub([1]), False),
        ("frozenset_subclass", lambda: _FrozensetSub([1]), True),
        ("namedtuple", lambda: NT(1, 2), True),
        ("ordereddict", lambda: collections.OrderedDict(a=1), False),
        ("defaultdict", lambda: collections.defaultdict(int), False),
        ("intenum", lambda: Color.RED, True),
        ("bytearray", lambda: bytearray(b"ab"), False),
        ("memoryview", lambda: memoryview(b"ab"), True),
        ("range", lambda: range(3), True),
        ("ellipsis", lambda: Ellipsis, True),
        ("notimplemented", lambda: NotImplemented, True),
        ("function", lambda: canon, True),
        ("builtin_function", lambda: len, True),
        ("type", lambda: int, True),
        ("decimal", lambda: decimal.Decimal("1.5"), True),
        ("fraction", lambda: fractions.Fraction(1, 3), True),
        ("lone_surrogate_str", lambda: "a\ud800b", True),
        ("lone_low_surrogate_str", lambda: "\udfff", True),
        # the whole surrogate block is non-encodable, including the U+DC80..U+DCFF window that the
        # "surrogateescape" error handler would map back to raw bytes
        ("surrogate_str_dbff", lambda: "x\udbff", True),
        ("surrogate_str_dc00", lambda: "\udc00y", True),
        ("surrogate_str_dc7f", lambda: "\udc7f", True),
        ("surrogate_str_dc80", lambda: "caf\udc80", True),
        ("surrogate_str_dce9", lambda: "caf\udce9.txt", True),
        ("surrogate_str_dcff", lambda: "\udcff", True),
        ("surrogate_str_dd00", lambda: "\udd00", True),
        ("surrogate_pair_halves_reversed", lambda: "\udc00\ud800", True),
        ("surrogate_str_any", _any_surrogate_str, True),
        ("module", lambda: struct, True),
        ("exception", lambda: ValueError("x"), True),
        ("slice", lambda: slice(1, 2), False),
        # objects that misbehave when looked at: the rejection must not depend on showing, comparing or probing them
        ("repr_raises", _ReprRaises, True),
        ("repr_returns_non_str", _ReprNotStr, True),
        ("str_raises", _StrRaises, True),
        ("claims_to_be_int", _ClaimsToBeInt, True),
        ("getattr_raises", _GetattrRaises, True),
        ("bool_and_len_raise", _BoolRaises, True),
        ("eq_raises", _EqRaises, True),
    ]
    # user classes whose __name__ collides with a serializer method name
    for nm in ("int", "str", "list", "bool", "NoneType", "Channel", "long", "float", "bytes",
               "tuple", "dict", "set", "frozenset", "complex"):
        cls = _named(nm)
        out.append((f"class_named_{nm}", cls, True))
    for nm, base in (("int", int), ("bool", int), ("str", str), ("tuple", tuple), ("float", float)):
        cls = _named(nm, base)
        out.append((f"subclass_named_{nm}_of_{base.__name__}", (lambda c=cls: c()), True))
    return out


def plant(rng, value, bad, bad_hashable: bool, depth_hint: int):
    """Return (new_value, path) with `bad` planted at a generated position."""
    pos = rng.choice(["root", "list", "tuple", "dict_value", "dict_key", "set", "frozenset"])
    if not bad_hashable and pos in ("dict_key", "set", "frozenset"):
        pos = rng.choice(["list", "tuple", "dict_value"])
    if pos == "root":
        v = bad
    elif pos == "list":
        v = [1, bad, value]
    elif pos == "tuple":
        v = (value, bad)
    elif pos == "dict_value":
        v = {"k": value, "bad": bad}
    elif pos == "dict_key":
        v = {"first": 1, bad: value}
    elif pos == "set":
        v = {"zz", bad}
    else:
        v = frozenset([bad, "x"])
    path = [pos]
    for i in range(depth_hint):
        how = rng.choice(("list", "tuple", "dict"))
        if how == "list":
            v = [i, v]
        elif how == "tuple":
            v = (v, i)
        else:
            v = {"lvl": i, "in": v}
        path.append(how)
    return v, path
