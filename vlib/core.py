"""L0 driver machinery shared by all monitors.

A monitor module (monitors/cNN.py) provides:

    ID, LEVEL, RULE            strings
    MINIMUM = {counter: n}     deciding-monitor minimum event counts (else inconclusive)
    def shards(tier, seed) -> list[dict]       JSON-able shard specs
    def run_shard(spec) -> dict                executed in its own subprocess

``run_shard`` returns a dict built with :class:`Result`.  The driver merges
the shard results, classifies violations against known_findings.json, writes
evidence/<ID>.json and sets the exit status (0 held / 1 violated /
2 inconclusive).
"""

from __future__ import annotations

import hashlib
import json
import os
import random
import subprocess
import sys
import tempfile
import time
import traceback

VERIF = os.path.dirname(os.path.dirname(os.path.abspath(__file__)))
REPO = os.environ.get("VERIF_REPO", "/repo")
REPO_SRC = os.path.join(REPO, "src")
PY = "/venv/bin/python"
NCPU = min(16, os.cpu_count() or 4)


def use_repo() -> None:
    """Make ``import execnet`` resolve to the working tree of /repo."""
    sys.dont_write_bytecode = True
    if REPO_SRC in sys.path:
        sys.path.remove(REPO_SRC)
    sys.path.insert(0, REPO_SRC)
    for name in list(sys.modules):
        if name == "execnet" or name.startswith("execnet."):
            mod = sys.modules[name]
            f = getattr(mod, "__file__", "") or ""
            if not f.startswith(REPO_SRC):
                del sys.modules[name]
    import execnet

    if not os.path.abspath(execnet.__file__).startswith(REPO_SRC + os.sep):
        raise WrongCopy(execnet.__file__)


SIGINT_LOG: list = []
OS_EXIT_LOG: list = []
REAL_EXIT = os._exit


class WrongCopy(Exception):
    pass


def child_env(extra: dict | None = None) -> dict:
    env = dict(os.environ)
    pp = [REPO_SRC, VERIF, os.path.join(VERIF, "vlib", "inject")]
    env["PYTHONPATH"] = os.pathsep.join(pp)
    env["PYTHONDONTWRITEBYTECODE"] = "1"
    env["PYTHONHASHSEED"] = "0"
    env["VERIF_REPO"] = REPO
    env.pop("EXECNET_DEBUG", None)
    if extra:
        env.update(extra)
    return env


class worker_noise:
    """context manager: real workers started inside get line-level schedule noise (see vlib/inject/sitecustomize.py)"""

    def __init__(self, seed: int, p: float = 0.02, max_sleep_ms: float = 20.0):
        self.spec = f"noise:{seed}:{p}:{max_sleep_ms}"

    def __enter__(self):
        self.old = os.environ.get("EXECNET_VERIF")
        os.environ["EXECNET_VERIF"] = self.spec
        return self

    def __exit__(self, *a):
        if self.old is None:
            os.environ.pop("EXECNET_VERIF", None)
        else:
            os.environ["EXECNET_VERIF"] = self.old


def h64(*parts) -> str:
    m = hashlib.blake2b(digest_size=8)
    for p in parts:
        if not isinstance(p, bytes):
            p = repr(p).encode("utf-8", "backslashreplace")
        m.update(p)
        m.update(b"\0")
    return m.hexdigest()


def case_seed(*parts) -> int:
    return int(h64(*parts), 16)


def rng_for(*parts) -> random.Random:
    return random.Random(case_seed(*parts))


def short(obj, n: int = 300) -> str:
    try:
        s = obj if isinstance(obj, str) else repr(obj)
    except BaseException as e:  # repr of huge ints etc.
        s = f"<unreprable {type(obj).__name__}: {type(e).__name__}>"
    if len(s) > n:
        s = s[: n - 20] + f"...<{len(s)} chars>"
    return s


class Result:
    """Accumulator used inside a shard."""

    def __init__(self) -> None:
        self.evaluations = 0
        self.distinct: set[str] = set()
        self.counters: dict[str, int] = {}
        self.samples: list = []
        self.violations: list[dict] = []
        self.inconclusive: list[str] = []
        self.signatures: set[str] = set()
        self.info: dict = {}
        self._sample_cap = 6
        self._per_mech: dict[str, int] = {}
        self._known_open = None
        self._t_first_violation = None

    def count(self, key: str, n: int = 1) -> None:
        self.counters[key] = self.counters.get(key, 0) + n

    def sample(self, obj) -> None:
        if len(self.samples) < self._sample_cap:
            self.samples.append(obj)

    def case(self, key) -> None:
        """Count one evaluated case; key identifies distinctness."""
        self.evaluations += 1
        self.distinct.add(key if isinstance(key, str) and len(key) == 16 else h64(key))

    def _known(self, mechanism: str) -> bool:
        if self._known_open is None:
            self._known_open = [k["mechanism"] for k in load_known() if k.get("status") == "known"]
        return any(mechanism == k or mechanism.startswith(k + ":") for k in self._known_open)

    def violation(self, mechanism: str, detail: str, case=None) -> None:
        # recorded findings do not count towards the early-stop budget of a shard
        known = self._known(mechanism)
        self.count("known_finding_hits" if known else "violations_raw")
        if not known and self._t_first_violation is None:
            self._t_first_violation = time.monotonic()
        # keep at most 4 witnesses per mechanism and shard, but always count
        self._per_mech[mechanism] = self._per_mech.get(mechanism, 0) + 1
        if self._per_mech[mechanism] <= 4 and len(self.violations) < 400:
            self.violations.append(
                {"mechanism": mechanism, "detail": short(detail, 2000), "case": case}
            )

    def enough(self, n: int = 5) -> bool:
        """True once this shard has recorded so many violations that exploring further only costs time
        (blocked operations are expensive to witness); loops should stop then."""
        if self.counters.get("violations_raw", 0) >= n:
            return True
        # ... or once 40 s have passed since the first violation (hangs are the expensive kind of witness)
        return self._t_first_violation is not None and time.monotonic() - self._t_first_violation > 40

    def sig(self, s) -> None:
        self.signatures.add(h64(s))

    def dump(self) -> dict:
        return {
            "evaluations": self.evaluations,
            "distinct": sorted(self.distinct),
            "counters": self.counters,
            "samples": self.samples,
            "violations": self.violations,
            "inconclusive": self.inconclusive,
            "signatures": sorted(self.signatures),
            "info": self.info,
        }


# ---------------------------------------------------------------------------
# shard execution


def _shard_main(argv: list[str]) -> int:
    """python -m vlib.core --shard <module> <specfile> <outfile>"""
    modname, specfile, outfile = argv
    sys.dont_write_bytecode = True
    sys.path.insert(0, VERIF)
    with open(specfile) as f:
        spec = json.load(f)
    try:
        import faulthandler
        import signal

        faulthandler.register(signal.SIGUSR1, all_threads=True)
        # in-process worker gateways escalate to SIGINT when execution does not end; record, don't die
        signal.signal(signal.SIGINT, lambda s, f: SIGINT_LOG.append(time.monotonic()))
        # ... and finally call os._exit(1); in a shard that would take the whole harness down: record it and end
        # only the calling (receiver) thread instead
        global REAL_EXIT
        REAL_EXIT = os._exit

        def _exit_recorder(code=0):
            OS_EXIT_LOG.append((time.monotonic(), code))
            raise SystemExit(code)

        os._exit = _exit_recorder
        use_repo()
        mod = __import__("monitors." + modname, fromlist=["x"])
        res = mod.run_shard(spec)
        if hasattr(res, "dump"):
            res = res.dump()
    except WrongCopy as e:
        res = Result()
        res.inconclusive.append(f"wrong execnet copy imported: {e}")
        res = res.dump()
    except BaseException as e:
        res = Result()
        tb = traceback.extract_tb(e.__traceback__)
        if tb and os.path.abspath(tb[-1].filename).startswith(os.path.abspath(REPO_SRC) + os.sep):
            # the code under test raised where the workload has no reason to expect it: that ends the shard, and it is
            # a finding, not a shortcoming of the run (the workloads do catch what the API documents)
            res.violation(f"shard-aborted-by-exception-from-execnet:{type(e).__name__}",
                          f"{type(e).__name__}: {str(e)[:300]} at {os.path.basename(tb[-1].filename)}:{tb[-1].lineno} in {tb[-1].name}; "
                          f"called from {os.path.basename(tb[-2].filename) if len(tb) > 1 else '?'}:{tb[-2].lineno if len(tb) > 1 else '?'}; "
                          f"stack: {' <- '.join(f'{os.path.basename(f.filename)}:{f.lineno}:{f.name}' for f in reversed(tb[-8:]))}")
        else:
            res.inconclusive.append("shard crashed: " + traceback.format_exc()[-3000:])
        res = res.dump()
    tmp = outfile + ".tmp"
    with open(tmp, "w") as f:
        json.dump(res, f)
    os.replace(tmp, outfile)
    sys.stdout.flush()
    sys.stderr.flush()
    # threads of torn-down gateways must not keep the shard alive
    REAL_EXIT(0)


def run_shards(modname: str, specs: list[dict], timeout: float, par: int = NCPU,
               hang_is_violation: bool = True) -> list[dict]:
    """Run every spec in its own process, at most ``par`` at a time.

    A shard that exceeds ``timeout`` is killed and re-run once alone (no
    sibling load); only a second expiry is reported.
    """
    tmpdir = tempfile.mkdtemp(prefix="verif-")
    results: dict[int, dict] = {}

    def launch(i: int):
        sf = os.path.join(tmpdir, f"spec{i}.json")
        of = os.path.join(tmpdir, f"out{i}.json")
        if os.path.exists(of):
            os.unlink(of)
        with open(sf, "w") as f:
            json.dump(specs[i], f)
        errf = open(os.path.join(tmpdir, f"err{i}.txt"), "wb")
        p = subprocess.Popen(
            [PY, "-m", "vlib.shard", modname, sf, of],
            cwd=VERIF, env=child_env(), stdin=subprocess.DEVNULL,
            stdout=errf, stderr=subprocess.STDOUT, start_new_session=True,
        )
        return (p, time.monotonic(), of, errf)

    def run_batch(indices: list[int], width: int) -> list[int]:
        pending = list(indices)
        running: dict[int, tuple] = {}
        expired: list[int] = []
        try:
            while pending or running:
                while pending and len(running) < width:
                    i = pending.pop(0)
                    running[i] = launch(i)
                time.sleep(0.05)
                for i in list(running):
                    p, t0, of, errf = running[i]
                    rc = p.poll()
                    if rc is None and time.monotonic() - t0 < timeout:
                        continue
                    if rc is None:
                        if os.environ.get("VERIF_DEBUG_EXPIRED"):
                            # where was it? (the shard registers faulthandler on SIGUSR1)
                            import signal

                            try:
                                os.kill(p.pid, signal.SIGUSR1)
                                time.sleep(1.0)
                                with open(os.path.join(os.environ["VERIF_DEBUG_EXPIRED"], f"expired-{modname}-{i}-{int(time.time())}.txt"), "w") as df:
                                    df.write(repr(specs[i]) + "\n" + _tail(os.path.join(tmpdir, f"err{i}.txt"), 60000))
                            except OSError:
                                pass
                        _killpg(p)
                        expired.append(i)
                    else:
                        _killpg(p)  # reap stray descendants in the session
                        results[i] = _collect(of, tmpdir, i)
                    errf.close()
                    del running[i]
        finally:
            for p, *_ in running.values():
                _killpg(p)
        return expired

    try:
        expired = run_batch(list(range(len(specs))), par)
        # A single straggler may be a victim of machine load: it gets a second chance without its siblings.  When several
        # shards blow a budget that is >= 10x their normal duration, load is not the explanation: report at once.
        if expired and len(expired) <= 3 and not os.environ.get("VERIF_NO_RETRY"):
            # re-run without the load of the full set (a few at a time keeps a broken tree from costing hours)
            expired = run_batch(expired, 4)
        for i in expired:
            r = Result()
            tail = _tail(os.path.join(tmpdir, f"err{i}.txt"))
            if hang_is_violation:
                r.violation("shard-hang", f"shard {i} exceeded {timeout}s (also when re-run alone); "
                            f"spec={specs[i]!r}; output tail: {tail}", case=specs[i])
            else:
                r.inconclusive.append(f"shard {i} timed out twice: {tail}")
            results[i] = r.dump()
    finally:
        import shutil

        shutil.rmtree(tmpdir, ignore_errors=True)
    return [results[i] for i in sorted(results)]


def _tail(path: str, n: int = 1500) -> str:
    try:
        with open(path, "rb") as f:
            return f.read()[-n:].decode("utf-8", "replace")
    except OSError:
        return ""


def _collect(of: str, tmpdir: str, i: int) -> dict:
    try:
        with open(of) as f:
            return json.load(f)
    except (OSError, ValueError):
        r = Result()
        r.inconclusive.append(f"shard {i} died without result: " + _tail(os.path.join(tmpdir, f"err{i}.txt")))
        return r.dump()


def _killpg(p: subprocess.Popen) -> None:
    import signal

    try:
        os.killpg(p.pid, signal.SIGKILL)
    except OSError:
        pass
    try:
        p.kill()
    except OSError:
        pass
    try:
        p.wait(5)
    except Exception:
        pass


# ---------------------------------------------------------------------------
# known findings


def load_known() -> list[dict]:
    path = os.path.join(VERIF, "known_findings.json")
    try:
        with open(path) as f:
            return json.load(f)["findings"]
    except OSError:
        return []


def drive(mod, tier: str, seed: int) -> int:
    """Run a monitor module end to end; returns the exit status."""
    t0 = time.monotonic()
    pid = mod.ID
    specs = mod.shards(tier, seed)
    for i, s in enumerate(specs):
        s.setdefault("tier", tier)
        s.setdefault("seed", seed)
        s.setdefault("shard", i)
    timeout = getattr(mod, "SHARD_TIMEOUT", {"quick": 150, "thorough": 1500})[tier]
    par = getattr(mod, "PAR", NCPU)
    results = run_shards(
        mod.__name__.split(".")[-1], specs, timeout, par,
        hang_is_violation=getattr(mod, "HANG_IS_VIOLATION", True),
    )
    ev = 0
    distinct: set[str] = set()
    counters: dict[str, int] = {}
    samples: list = []
    violations: list[dict] = []
    inconclusive: list[str] = []
    signatures: set[str] = set()
    info: dict = {}
    for r in results:
        ev += r["evaluations"]
        distinct.update(r["distinct"])
        for k, v in r["counters"].items():
            counters[k] = counters.get(k, 0) + v
        for s in r["samples"]:
            if len(samples) < 12:
                samples.append(s)
        violations.extend(r["violations"])
        inconclusive.extend(r["inconclusive"])
        signatures.update(r["signatures"])
        for k, v in r.get("info", {}).items():
            if isinstance(v, list):
                cur = info.setdefault(k, [])
                for x in v:
                    if x not in cur and len(cur) < 200:
                        cur.append(x)
            elif isinstance(v, dict):
                cur = info.setdefault(k, {})
                for kk, vv in v.items():
                    if isinstance(vv, (int, float)) and isinstance(cur.get(kk), (int, float)):
                        cur[kk] = max(cur[kk], vv)
                    else:
                        cur.setdefault(kk, vv)
            else:
                info[k] = v

    if hasattr(mod, "finalize"):
        # cross-shard oracle (e.g. the same programs on every configuration must give the same transcripts)
        for mech, detail in mod.finalize(info, counters) or ():
            violations.append({"mechanism": mech, "detail": short(detail, 2000), "case": None})

    minimum = getattr(mod, "MINIMUM", {})
    if isinstance(minimum, dict) and tier in minimum and isinstance(minimum[tier], dict):
        minimum = minimum[tier]
    for k, n in minimum.items():
        have = len(distinct) if k == "distinct" else len(signatures) if k == "signatures" else counters.get(k, 0)
        if have < n:
            inconclusive.append(f"deciding monitor saw {k}={have} < minimum {n}")

    known = [k for k in load_known() if k.get("property") == pid]
    known_open = {k["mechanism"]: k for k in known if k.get("status") == "known"}
    new: list[dict] = []
    seen_known: dict[str, int] = {}
    for v in violations:
        m = v["mechanism"]
        hit = None
        for km in known_open:
            if m == km or m.startswith(km + ":"):
                hit = km
                break
        if hit is not None:
            seen_known[hit] = seen_known.get(hit, 0) + 1
        else:
            new.append(v)

    # (side runs against a scratch tree - VERIF_REPO - keep their output away from the real evidence)
    evdir = os.environ.get("VERIF_EVIDENCE_DIR") or os.path.join(VERIF, "evidence")
    rpdir = os.environ.get("VERIF_EVIDENCE_DIR") or os.path.join(VERIF, "replays")
    os.makedirs(evdir, exist_ok=True)
    os.makedirs(rpdir, exist_ok=True)
    lines: list[str] = []
    by_mech: dict[str, list[dict]] = {}
    for v in new:
        by_mech.setdefault(v["mechanism"], []).append(v)
    for m, vs in by_mech.items():
        rp = os.path.join(rpdir, f"{pid}-{h64(m)}.json")
        with open(rp, "w") as f:
            json.dump({"property": pid, "tier": tier, "seed": seed, "mechanism": m,
                       "count": len(vs), "witnesses": vs[:10]}, f, indent=1, default=repr)
        lines.append(f"VIOLATION property={pid} replay={rp}")
        print(f"# {pid} mechanism={m} witnesses={len(vs)} first: {short(vs[0]['detail'], 600)}")
    for km, n in seen_known.items():
        lines.append(f"KNOWN-FINDING: property={pid} {km}: {known_open[km].get('what', '')} (seen {n}x this run)")

    coverage = {
        "evaluations": ev,
        "distinct_nontrivial": len(distinct),
        "rule": mod.RULE,
        "samples": samples or ["<none>"],
        "counters": dict(sorted(counters.items())),
        "distinct_interleaving_signatures": len(signatures),
        "shards": len(specs),
    }
    coverage.update(info)
    if hasattr(mod, "EXHAUSTIVE") and mod.EXHAUSTIVE.get(tier):
        coverage["exhaustive"] = True
    evidence = {
        "property_id": pid,
        "tier": tier,
        "seed": seed,
        "level": mod.LEVEL,
        "coverage": coverage,
        "assumptions": list(getattr(mod, "ASSUMPTIONS", [])),
        "wall_s": round(time.monotonic() - t0, 2),
        "violations": len(new),
        "known_findings_seen": seen_known,
        "inconclusive": inconclusive[:20],
        "verdict": "violated" if new else ("inconclusive" if inconclusive else "held-on-observed"),
    }
    with open(os.path.join(evdir, f"{pid}.json"), "w") as f:
        json.dump(evidence, f, indent=1, default=repr)
        f.write("\n")

    for ln in lines:
        print(ln)
    keyc = ", ".join(f"{k}={v}" for k, v in sorted(counters.items())[:14])
    print(f"# {pid} tier={tier} seed={seed} evaluations={ev} distinct={len(distinct)} "
          f"signatures={len(signatures)} wall={evidence['wall_s']}s [{keyc}]")
    if new:
        return 1
    if inconclusive:
        for s in inconclusive[:5]:
            print(f"INCONCLUSIVE property={pid} reason={short(s, 1500)}")
        return 2
    return 0


