"""Generic initiator process for the process-level properties (C05, C11, C16).

python -m vlib.initiator <case.json>
Prints one JSON object per line on stdout (events).  Imports execnet from the
PYTHONPATH given by the harness (asserted to be /repo/src)."""

from __future__ import annotations

import json
import os
import signal
import subprocess
import sys
import time

ACTIVITIES = {
    "idle": None,
    "blocked": "channel.send('started')\nchannel.receive()\n",
    "busy": "channel.send('started')\nwhile True:\n    pass\n",
    "sleep": "import time\nchannel.send('started')\ntime.sleep(100000)\n",
    "swallow_kbi": ("import time\nchannel.send('started')\nwhile True:\n    try:\n        while True:\n            time.sleep(0.02)\n"
                    "    except KeyboardInterrupt:\n        pass\n"),
    # SIG_IGN installed through libc so that it works from whatever thread the body happens to run in
    # the executed code has installed its own SIGINT handler / ignores SIGINT through the signal module
    "python_sigint_handler": "import signal, time\nsignal.signal(signal.SIGINT, lambda *a: None)\nchannel.send('started')\nwhile True:\n    time.sleep(0.05)\n",
    "python_sigint_ign": "import signal, time\nsignal.signal(signal.SIGINT, signal.SIG_IGN)\nchannel.send('started')\nwhile True:\n    time.sleep(0.05)\n",
    "sigint_ignored": "import ctypes, time\nctypes.CDLL(None).signal(2, 1)\nchannel.send('started')\nwhile True:\n    time.sleep(0.05)\n",
    "daemon_threads": ("import threading, time\n"
                       "def spin():\n    while True:\n        time.sleep(0.01)\n"
                       "for i in range(3):\n    t = threading.Thread(target=spin)\n    t.daemon = True\n    t.start()\n"
                       "channel.send('started')\nchannel.receive()\n"),
    "flood": "channel.send('started')\nwhile True:\n    channel.send(b'x' * 200000)\n",
    "big_transfer": "channel.send('started')\nchannel.send(b'y' * 50000000)\nchannel.receive()\n",
    "gevent_sleep": "import gevent\nchannel.send('started')\nwhile True:\n    gevent.sleep(0.05)\n",
    "gevent_busy": "channel.send('started')\nwhile True:\n    pass\n",
    "gevent_timesleep": "import time\nchannel.send('started')\ntime.sleep(100000)\n",
    # a callback with endmarker that fails when the stream ends (here: when the initiator disappears)
    "endmarker_raises": ("c = channel.gateway.newchannel()\nchannel.send(c)\n"
                         "def cb(item):\n    if item is None:\n        raise ValueError('callback fails on its endmarker')\n"
                         "c.setcallback(cb, endmarker=None)\nchannel.send('started')\nchannel.receive()\n"),
    # the connection ends although the process lives on: all descriptors closed / replaced by another program
    "fds_closed_alive": ("import os, time\nchannel.send('started')\ntime.sleep(0.3)\nos.closerange(0, 256)\nwhile True:\n"
                         "    try:\n        time.sleep(0.05)\n    except KeyboardInterrupt:\n        pass\n"),
    "execv_sleep": "import os, time\nchannel.send('started')\ntime.sleep(0.3)\nos.execv('/bin/sleep', ['sleep', '1000'])\n",
    # a service left behind: a callback registered on a channel whose object is gone, the body itself has returned
    "callback_service": ("c = channel.gateway.newchannel()\nchannel.send(c)\nc.setcallback(lambda item: None)\ndel c\n"
                         "c2 = channel.gateway.newchannel()\nc2.setcallback(lambda item: None, endmarker=None)\ndel c2\nchannel.send('started')\n"),
    # the initiator keeps sending large frames to this worker (see main): whenever it disappears, a frame is in flight
    # (the consumer is slower than the sender, so the sender sits blocked in the middle of a frame nearly all the time:
    # a writer that never has to wait is only killed between two write calls, i.e. between frames)
    # thousands of small items that nobody reads pile up in the worker while its execution is busy elsewhere
    "unread_backlog": "import time\nchannel.send('started')\ntime.sleep(100000)\n",
    # two executions sending at once into a pipe the initiator has stopped reading (its receiver is stuck in a callback)
    "two_senders_full_pipe": "channel.send('started')\nwhile True:\n    channel.send(b'x' * 200000)\n",
    "inbound_flood": "import time\nchannel.setcallback(lambda item: time.sleep(0.02))\nchannel.send('started')\ntime.sleep(100000)\n",
    # killed (by the initiator, below) while a helper process it started still holds its output pipe: whoever relays
    # for this worker sees no end of stream
    "killed_pipe_held": ("import os, subprocess\nfd = channel.gateway._io.outfile.fileno()\nos.set_inheritable(fd, True)\n"
                         "subprocess.Popen(['sleep', '25'], pass_fds=[fd], stdin=subprocess.DEVNULL, stdout=subprocess.DEVNULL, stderr=subprocess.DEVNULL)\n"
                         "channel.send('started')\nchannel.receive()\n"),
    # the worker cannot start threads any more (process/thread limit reached); the initiator then asks for one more
    # execution (see main) and disappears
    "thread_exhaustion": ("import _thread\ndef _no(*a, **k):\n    raise RuntimeError(\"can't start new thread\")\n"
                          "_thread.start_new_thread = _no\nchannel.send('started')\nchannel.receive()\n"),
    "stopped": "channel.send('started')\nchannel.receive()\n",
    "killed": "channel.send('started')\nchannel.receive()\n",
}


def _quiet(fn):
    try:
        fn()
    except Exception:
        pass


def emit(**kw):
    sys.stdout.write(json.dumps(kw) + "\n")
    sys.stdout.flush()


def main():
    with open(sys.argv[1]) as f:
        case = json.load(f)
    import execnet

    want = os.path.join(os.environ.get("VERIF_REPO", "/repo"), "src") + os.sep
    assert os.path.abspath(execnet.__file__).startswith(want), execnet.__file__
    orig_init = subprocess.Popen.__init__

    def logging_init(self, *a, **k):
        orig_init(self, *a, **k)
        emit(event="popen_pid", pid=self.pid)

    subprocess.Popen.__init__ = logging_init
    group = execnet.Group()
    gws = {}
    chans = []
    workers = {}
    t_boot = time.monotonic()
    for g in case["gateways"]:
        spec = g["spec"]
        if spec == "popen":
            s = "popen"
        elif spec == "python":
            s = f"popen//python={sys.executable}"
        elif spec.startswith("py3"):
            # another supported interpreter than the initiating side's (the shipped source runs there)
            import glob

            s = "popen//python=" + sorted(glob.glob(f"/root/.pyenv/versions/{spec[2:]}.*/bin/python"))[-1]
        elif spec == "via":
            s = f"popen//via={g['master']}"
        elif spec == "socket":
            s = f"socket//installvia={g['master']}"
        else:
            raise ValueError(spec)
        s += f"//id={g['id']}//execmodel={g.get('execmodel', 'thread')}"
        gw = group.makegateway(s)
        gws[g["id"]] = gw
        emit(event="gateway", id=g["id"], spec=s)
    for g in case["gateways"]:
        gw = gws[g["id"]]
        pidch = gw.remote_exec("import os\nchannel.send(os.getpid())")
        workers[g["id"]] = pidch.receive(30)
        pidch.waitclose(30)
    emit(event="workers", pids=workers, boot_s=round(time.monotonic() - t_boot, 3))
    for g in case["gateways"]:
        act = g.get("activity", "idle")
        src = ACTIVITIES[act]
        if src is not None:
            ch = gws[g["id"]].remote_exec(src)
            chans.append(ch)
            try:
                first = ch.receive(30)
            except Exception as e:  # noqa
                if not (act.startswith("python_sigint") and "main thread" in str(e)):
                    raise
                # (the worker's main thread had not become available again after the previous execution, so this one was
                # given another thread, where the signal module refuses to work: ask again until it runs in the main thread)
                for _ in range(20):
                    time.sleep(0.3)
                    ch = gws[g["id"]].remote_exec(src)
                    try:
                        first = ch.receive(30)
                        chans.append(ch)
                        break
                    except Exception as e2:  # noqa
                        if "main thread" not in str(e2):
                            raise
                else:
                    raise
            if act in ("endmarker_raises", "callback_service"):
                chans.append(first)  # the sub-channel whose remote end carries the failing callback
                first = ch.receive(30)
            assert first == "started"
            if act == "thread_exhaustion":
                try:
                    chans.append(gws[g["id"]].remote_exec("channel.send(1)"))
                except Exception as e:  # noqa
                    emit(event="note", msg=f"remote_exec on exhausted worker: {e!r}")
            if act == "two_senders_full_pipe":
                import threading

                # (items already queued are handed over in this thread: only the receiver thread is to get stuck)
                ch.setcallback(lambda item: time.sleep(100000) if threading.current_thread() is not threading.main_thread() else None)
                chans.append(gws[g["id"]].remote_exec("while True:\n    channel.send(b'y' * 200000)\n"))
                time.sleep(0.5)
            if act == "unread_backlog":
                for i in range(6000):
                    ch.send(i)
            if act == "inbound_flood":
                import threading

                def flood(ch=ch):
                    try:
                        while True:
                            ch.send(b"z" * 4000000)
                    except BaseException:  # noqa
                        pass

                threading.Thread(target=flood, daemon=True).start()
    # signals last: a stopped/killed master could not start its sub-gateways' activities any more
    for g in case["gateways"]:
        act = g.get("activity", "idle")
        if act == "stopped":
            os.kill(workers[g["id"]], signal.SIGSTOP)
        elif act in ("killed", "killed_pipe_held"):
            os.kill(workers[g["id"]], signal.SIGKILL)
            time.sleep(0.1)
    if any(g.get("activity") in ("fds_closed_alive", "execv_sleep") for g in case["gateways"]):
        time.sleep(0.8)  # let those connections reach EOF
    if case.get("worker_debug"):
        # executions that leave garbage behind which only the cyclic collector finds (a function defined by the source refers
        # to its own namespace, which holds the channel); nobody waits for them
        for g in case["gateways"]:
            for _ in range(3):
                try:
                    chans.append(gws[g["id"]].remote_exec("def helper():\n    return channel\n"))
                except Exception as e:  # noqa
                    emit(event="note", msg=f"helper exec: {e!r}")
        time.sleep(0.3)
    emit(event="ready")
    action = case["action"]
    if action == "terminate":
        for gid in case.get("pre_exit", ()):
            # Gateway.exit() defers the waiting "to when group.terminate() is called"
            gws[gid].exit()
            emit(event="pre_exit", id=gid)
            if gid in case.get("pre_exit_replace", ()):
                # the id is free again: a replacement takes it (the retired member still has to be waited for / killed)
                group.makegateway("popen//id=%s" % gid)
                emit(event="replaced", id=gid)
        if case.get("kill_during_terminate"):
            # a member that is stopped when terminate() begins dies a little later (the OOM killer, an operator's kill -9)
            import threading

            gid, delay = case["kill_during_terminate"]
            threading.Timer(delay, lambda: _quiet(lambda: os.kill(workers[gid], signal.SIGKILL))).start()
        late = {}
        if case.get("makegateway_during_terminate"):
            # another thread is still making a gateway when terminate() begins (it is busy with a stuck member meanwhile)
            import threading

            def make_late():
                time.sleep(case["makegateway_during_terminate"])
                try:
                    group.makegateway("popen//id=late")
                    late["outcome"] = "returned"
                except BaseException as e:  # noqa
                    late["outcome"] = f"{type(e).__name__}: {str(e)[:120]}"
                late["t"] = time.monotonic()

            lt = threading.Thread(target=make_late, daemon=True)
            lt.start()
        t0 = time.monotonic()
        raised = None
        try:
            group.terminate(case["timeout"])
        except Exception as e:  # noqa: what terminate() lets out is for the monitor to judge, not a set-up problem
            import traceback

            raised = f"{type(e).__name__}: {str(e)[:200]} | {traceback.format_exc()[-500:]}"
        t_ret = time.monotonic()
        if case.get("makegateway_during_terminate"):
            lt.join(20)
            emit(event="late_makegateway", outcome=late.get("outcome"), finished_before_terminate_returned=bool(late) and late["t"] < t_ret - 0.3)
        emit(event="terminate_done", seconds=round(t_ret - t0, 3), len_group=len(group), raised=raised)
        # stay around briefly so the harness can inspect /proc while we are still the parent
        time.sleep(case.get("linger", 1.5))
        os._exit(0)
    elif action == "wait_killed":
        time.sleep(100000)
    elif action == "os_exit":
        os._exit(0)
    elif action == "exit_after_fork":
        # a process forked off earlier (multiprocessing's fork start method, a daemonised helper) still holds copies of the
        # pipes when the initiator tells its gateways to exit and leaves: the workers see the exit request, but no EOF
        pid = os.fork()
        if pid == 0:
            try:
                time.sleep(60)
            finally:
                os._exit(0)
        emit(event="helper_pid", pid=pid)
        for gw in gws.values():
            _quiet(gw.exit)
        time.sleep(0.3)
        os._exit(0)
    elif action == "normal_exit":
        return
    elif action == "close_connection":
        for gw in gws.values():
            io = gw._io
            try:
                io.close_write()
            except Exception as e:  # noqa
                emit(event="note", msg=f"close_write: {e!r}")
            # closing the read side blocks while the receiver thread sits in read(): do it aside
            import threading

            threading.Thread(target=lambda io=io: _quiet(io.close_read), daemon=True).start()
        emit(event="connections_closed")
        time.sleep(100000)
    elif action == "failing_makegateway":
        before = [gw.id for gw in group]
        variant = case["variant"]
        emit(event="attempt_begin", variant=variant)
        outcome = "returned"
        try:
            if variant == "dup_explicit":
                group.makegateway("popen//id=%s" % before[0])
            elif variant == "dup_explicit_python":
                group.makegateway("popen//python=%s//id=%s" % (sys.executable, before[0]))
            elif variant == "explicit_equals_next_auto":
                nxt = "gw%d" % group._autoidcounter
                group.makegateway("popen//id=" + nxt)
                emit(event="note", msg="explicit id %s registered" % nxt)
                emit(event="attempt_begin", variant=variant + ":auto")
                group.makegateway("popen")
            elif variant == "dead_interpreter":
                gw = group.makegateway("popen//python=/bin/false//id=dead")
                outcome = "returned a gateway"
            elif variant == "via_dup":
                group.makegateway("popen//via=%s//id=%s" % (before[0], before[0]))
            elif variant == "chdir_is_file":
                group.makegateway("popen//chdir=%s" % os.path.abspath(sys.argv[1]))
            elif variant == "nice_not_a_number":
                group.makegateway("popen//nice=abc")
            elif variant == "concurrent_auto":
                import threading

                outs = []
                go = threading.Barrier(6)

                def make():
                    try:
                        go.wait(10)
                        outs.append(("ok", group.makegateway("popen").id))
                    except BaseException as e:  # noqa
                        outs.append(("failed", type(e).__name__ + ": " + str(e)[:120]))

                ths = [threading.Thread(target=make) for _ in range(6)]
                for t in ths:
                    t.start()
                for t in ths:
                    t.join(60)
                bad = [o for o in outs if o[0] != "ok"]
                ids = [o[1] for o in outs if o[0] == "ok"]
                if bad or len(set(ids)) != len(ids) or len(outs) != 6:
                    outcome = "%d of 6 concurrent makegateway calls failed: %s; ids %s" % (len(bad) + 6 - len(outs), bad[:2], ids)
            elif variant == "chdir_missing_parent":
                group.makegateway("popen//python=%s//chdir=/nonexistent-verif-dir/sub/dir" % sys.executable)
        except BaseException as e:  # noqa
            outcome = type(e).__name__ + ": " + str(e)[:200]
        emit(event="attempt_end", outcome=outcome, before=before, after=[gw.id for gw in group])
        time.sleep(case.get("linger", 2.0))
        group.terminate(1.0)
        emit(event="post_terminate", len_group=len(group))
        time.sleep(1.5)
        os._exit(0)
    else:
        raise ValueError(action)


if __name__ == "__main__":
    try:
        main()
    except BaseException as e:  # noqa
        import traceback

        emit(event="initiator_error", error=type(e).__name__ + ": " + str(e)[-400:], tb=traceback.format_exc()[-800:])
        os._exit(3)
