"""Worker-side schedule perturbation for real (import-bootstrapped) worker processes.

Active only when EXECNET_VERIF is set (e.g. "noise:<seed>:<p>:<max_sleep_ms>"), which only /verif's own shards do, right
before they start a gateway.  Uses sys.monitoring LINE events restricted to execnet's gateway_base (or to the "<string>"
code of a source-bootstrapped worker): at a line boundary the running thread yields, or sleeps up to max_sleep_ms, with
probability p.  Nothing in the repository reads this variable."""
import os
import sys

_spec = os.environ.get("EXECNET_VERIF", "")
if _spec.startswith(("noise:", "noisegc:")) and hasattr(sys, "monitoring"):
    try:
        import random
        import time

        _kind, _seed, _p, _ms = _spec.split(":")
        _gc = _kind == "noisegc"
        if _gc:
            # collections happen when this schedule says so: inside the tracing helper (a legal moment for one)
            import gc as _gcmod

            _gcmod.disable()
        _rng = random.Random(int(_seed) ^ os.getpid())
        _p = float(_p)
        _ms = float(_ms) / 1000.0
        _mon = sys.monitoring
        _TOOL = 3

        def _line(code, lineno):
            fn = code.co_filename
            if not (fn.endswith("gateway_base.py") or fn == "<string>"):
                return _mon.DISABLE
            x = _rng.random()
            if x < _p:
                time.sleep(0 if x < _p * 0.7 else _rng.random() * _ms)
            elif _gc and code.co_name == "trace" and x > 0.7:
                # ("noisegc": a cyclic collection may start at any line, as it may in any program that allocates)
                import gc

                gc.collect()
            return None

        _mon.use_tool_id(_TOOL, "verif-worker-noise")
        _mon.register_callback(_TOOL, _mon.events.LINE, _line)
        _mon.set_events(_TOOL, _mon.events.LINE)
    except Exception:  # never disturb the process under observation
        pass
