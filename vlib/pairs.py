"""L4 in-process gateway pairs over real OS pipes / TCP loopback sockets.

Both ends run the unmodified execnet classes: ``Gateway(io_a, spec)`` and
``WorkerGateway(io_b).serve()`` in a thread.  IO tees record what the single
receiver thread *read* and the argument of each write() call.
"""

from __future__ import annotations

import os
import signal
import socket
import threading
import time

import execnet
from execnet import gateway_base as gb
from execnet.gateway_socket import SocketIO

SIGINT_LOG: list = []


def install_sigint_recorder() -> None:
    """The worker side of an in-process pair escalates to SIGINT after 5 s of
    unfinished execution; record that instead of dying."""
    if threading.current_thread() is threading.main_thread():
        signal.signal(signal.SIGINT, lambda s, f: SIGINT_LOG.append(time.monotonic()))


class PipeIO(gb.Popen2IO):
    def wait(self):
        return 0

    def kill(self):
        pass

    def close_read(self):
        try:
            super().close_read()
        except OSError:
            pass

    def close_write(self):
        try:
            super().close_write()
        except OSError:
            pass


class TeeIO:
    """Wraps an IO object; logs read results and write arguments."""

    def __init__(self, io):
        self._io = io
        self.execmodel = io.execmodel
        self.reads: list[bytes] = []
        self.writes: list[bytes] = []
        self.log_reads = True
        self.log_writes = True

    def read(self, n):
        data = self._io.read(n)
        if self.log_reads:
            self.reads.append(data)
        return data

    def write(self, data):
        if self.log_writes:
            self.writes.append(data)
        return self._io.write(data)

    def read_stream(self) -> bytes:
        return b"".join(self.reads)

    def written_stream(self) -> bytes:
        return b"".join(self.writes)

    def __getattr__(self, name):
        return getattr(self._io, name)


def pipe_ios(em_a, em_b):
    """File objects as the real popen transport has them: the initiator holds the
    buffered binary files subprocess.Popen creates for PIPEs, the worker holds what
    init_popen_io builds (execmodel.fdopen(fd, 'r'/'w', 1), used through .buffer)."""
    r1, w1 = os.pipe()  # a -> b
    r2, w2 = os.pipe()  # b -> a
    io_a = PipeIO(open(w1, "wb", -1), open(r2, "rb", -1), em_a)
    io_b = PipeIO(em_b.fdopen(w2, "w", 1), em_b.fdopen(r1, "r", 1), em_b)
    return io_a, io_b


_LISTENER = None
_LISTENER_LOCK = threading.Lock()


def tcp_socks():
    """a connected (client, server) TCP pair over loopback.  One listening socket per process is
    reused: thousands of short connections would otherwise exhaust ports through TIME_WAIT."""
    global _LISTENER
    with _LISTENER_LOCK:
        if _LISTENER is None:
            srv = socket.socket(socket.AF_INET, socket.SOCK_STREAM)
            srv.setsockopt(socket.SOL_SOCKET, socket.SO_REUSEADDR, 1)
            srv.bind(("127.0.0.1", 0))
            srv.listen(16)
            _LISTENER = srv
        for attempt in range(50):
            c = socket.socket(socket.AF_INET, socket.SOCK_STREAM)
            try:
                c.connect(_LISTENER.getsockname())
                break
            except OSError:
                c.close()
                time.sleep(0.1)
        else:
            raise OSError("could not connect to the loopback listener")
        s, _ = _LISTENER.accept()
    return c, s


def socket_ios(em_a, em_b):
    c, s = tcp_socks()
    return SocketIO(c, em_a), SocketIO(s, em_b)


def _bounded(fn, timeout: float) -> bool:
    """run fn() in a helper thread; give up waiting after `timeout` seconds"""

    def run():
        try:
            fn()
        except Exception:
            pass

    t = threading.Thread(target=run, daemon=True)
    t.start()
    t.join(timeout)
    return not t.is_alive()


class Pair:
    """A Gateway and a WorkerGateway connected in-process."""

    def __init__(self, transport: str = "pipe", em_a=None, em_b=None, tee: bool = False,
                 worker_backend: str = "thread", sched=None, start_worker: bool = True):
        from . import imodel

        if em_a is None:
            em_a = imodel.imodel("thread", sched) if sched else gb.get_execmodel("thread")
        if em_b is None:
            em_b = imodel.imodel(worker_backend, sched) if sched else gb.get_execmodel(worker_backend)
        if transport == "pipe":
            io_a, io_b = pipe_ios(em_a, em_b)
        else:
            io_a, io_b = socket_ios(em_a, em_b)
        self.raw_a, self.raw_b = io_a, io_b
        if tee:
            io_a, io_b = TeeIO(io_a), TeeIO(io_b)
        self.io_a, self.io_b = io_a, io_b
        self.group = execnet.Group(execmodel=em_a)
        spec = execnet.XSpec("popen//id=pair")
        spec.execmodel = em_b.backend
        self.worker = gb.WorkerGateway(io=io_b, id="pair-worker", _startcount=2)
        self.worker_done = threading.Event()
        self.worker_exc = None
        self.sched = sched
        if start_worker:
            self.wthread = threading.Thread(target=self._serve, daemon=True, name="pair-worker-main")
            self.wthread.start()
        self.gw = execnet.Gateway(io_a, spec)
        self.gw.spec = spec
        self.group._register(self.gw)

    def _serve(self):
        if self.sched is not None:
            self.sched.set_role("wmain")
        try:
            self.worker.serve()
        except BaseException as e:  # noqa
            self.worker_exc = e
        finally:
            self.worker_done.set()

    def close(self, timeout: float = 5.0) -> bool:
        """Terminate; returns True if both sides wound down in time."""
        ok = True
        try:
            self.gw.exit()
        except Exception:
            pass
        try:
            self.gw.join(timeout)
        except Exception:
            pass
        if self.gw.hasreceiver():
            ok = False
        if not self.worker_done.wait(timeout):
            ok = False
        # write ends first (that is what makes the other side's reader see EOF); closing a read end blocks as long
        # as another thread sits in read() on it, so that is done aside and never waited for long
        for io in (self.raw_a, self.raw_b):
            _bounded(io.close_write, 1.0)
        for io in (self.raw_a, self.raw_b):
            _bounded(io.close_read, 1.0)
        try:
            import atexit

            atexit.unregister(self.group._cleanup_atexit)
        except Exception:
            pass
        return ok


def wait_until(pred, timeout: float = 5.0, step: float = 0.002) -> bool:
    t0 = time.monotonic()
    while True:
        if pred():
            return True
        if time.monotonic() - t0 > timeout:
            return False
        time.sleep(step)


class Watchdog:
    """Runs callables in a persistent helper thread; a call that does not return
    within the timeout is abandoned (the thread is replaced)."""

    TIMEOUT = object()

    def __init__(self):
        self._start()

    def _start(self):
        import queue

        self.q = queue.SimpleQueue()
        self.t = threading.Thread(target=self._loop, args=(self.q,), daemon=True)
        self.t.start()

    @staticmethod
    def _loop(q):
        while True:
            job = q.get()
            if job is None:
                return
            fn, box, ev = job
            try:
                box.append(("ok", fn()))
            except BaseException as e:  # noqa
                box.append(("exc", e))
            ev.set()

    def call(self, fn, timeout: float = 10.0):
        box: list = []
        ev = threading.Event()
        self.q.put((fn, box, ev))
        if not ev.wait(timeout):
            self._start()
            return self.TIMEOUT
        kind, val = box[0]
        if kind == "exc":
            raise val
        return val

    def stop(self):
        self.q.put(None)


class ScriptedPeer:
    """A real Gateway whose peer is the harness: frames are written to / read from raw pipes."""

    def __init__(self, tee: bool = True, em=None, transport: str = "pipe"):
        em = em or gb.get_execmodel("thread")
        if transport == "pipe":
            r1, w1 = os.pipe()  # gateway -> harness
            r2, w2 = os.pipe()  # harness -> gateway
            io_a = PipeIO(open(w1, "wb", -1), open(r2, "rb", -1), em)
            self.peer_w = open(w2, "wb", 0)
            self.peer_r = open(r1, "rb", 0)
            self._send_raw = self._write_all
            self._recv_raw = self.peer_r.read
            self._closers = [self.peer_w.close, self.peer_r.close]
        else:
            c, s = tcp_socks()
            io_a = SocketIO(c, em)
            self._send_raw = s.sendall
            self._recv_raw = s.recv
            self.sock = s
            self._closers = [s.close]
        self.raw_a = io_a
        self.io_a = TeeIO(io_a) if tee else io_a
        self.gw = execnet.Gateway(self.io_a, execnet.XSpec("popen//id=scripted"))

    def _write_all(self, data: bytes) -> None:
        mv = memoryview(data)
        while len(mv):
            n = self.peer_w.write(mv)
            mv = mv[n:]

    def feed(self, data: bytes) -> None:
        self._send_raw(data)

    def recv(self, n: int = 65536) -> bytes:
        """raw bytes the gateway wrote (b'' at EOF)"""
        return self._recv_raw(n)

    def start_drain(self) -> None:
        """discard whatever the gateway writes from now on (for long workloads that never look at it: an unread pipe
        would fill up and block the gateway's senders)"""

        def loop():
            try:
                while self._recv_raw(65536):
                    pass
            except (OSError, ValueError):
                pass

        threading.Thread(target=loop, daemon=True).start()

    def close_peer(self) -> None:
        for c in self._closers:
            try:
                c()
            except OSError:
                pass

    def shutdown(self, timeout: float = 5.0) -> None:
        self.close_peer()
        self.gw.join(timeout)


class ScriptedInitiator:
    """A real WorkerGateway (serving in a thread) whose initiator is the harness."""

    def __init__(self, backend: str = "thread", em=None):
        em = em or gb.get_execmodel(backend)
        r1, w1 = os.pipe()  # harness -> worker
        r2, w2 = os.pipe()  # worker -> harness
        self.io_b = PipeIO(em.fdopen(w2, "w", 1), em.fdopen(r1, "r", 1), em)
        self.peer_w = open(w1, "wb", 0)
        self.peer_r = open(r2, "rb", 0)
        self.worker = gb.WorkerGateway(io=self.io_b, id="scripted-worker", _startcount=2)
        self.done = threading.Event()
        self.exc = None
        self.thread = threading.Thread(target=self._serve, daemon=True, name="scripted-worker-main")
        self.thread.start()

    def _serve(self):
        try:
            self.worker.serve()
        except BaseException as e:  # noqa
            self.exc = e
        finally:
            self.done.set()

    def feed(self, data: bytes) -> None:
        mv = memoryview(data)
        while len(mv):
            n = self.peer_w.write(mv)
            mv = mv[n:]

    def read_exact(self, n: int) -> bytes:
        buf = b""
        while len(buf) < n:
            d = self.peer_r.read(n - len(buf))
            if not d:
                raise EOFError(f"worker closed the stream after {len(buf)}/{n} bytes")
            buf += d
        return buf

    def read_frame(self):
        import struct

        code, ch, ln = struct.unpack("!bii", self.read_exact(9))
        return code, ch, self.read_exact(ln)

    def close(self, timeout: float = 5.0) -> bool:
        for f in (self.peer_w,):
            try:
                f.close()
            except OSError:
                pass
        ok = self.done.wait(timeout)
        try:
            self.peer_r.close()
        except OSError:
            pass
        return ok


def make_teed_gateway(group, specstring: str):
    """Like Group.makegateway, but with a TeeIO around the initiator's IO so that every byte its
    receiver thread reads is recorded (wire purity).  Returns (gateway, tee); tee.reads[0] holds the
    bootstrap acknowledgement byte b'1'."""
    from execnet import gateway_bootstrap
    from execnet import gateway_io
    from execnet import gateway_socket

    spec = execnet.XSpec(specstring)
    group.allocate_id(spec)
    if spec.execmodel is None:
        spec.execmodel = group.remote_execmodel.backend
    if spec.via:
        master = group[spec.via]
        proxy_channel = master.remote_exec(gateway_io)
        proxy_channel.send(vars(spec))
        io = gateway_io.ProxyIO(proxy_channel, group.execmodel)
    elif spec.popen:
        io = gateway_io.create_io(spec, execmodel=group.execmodel)
    elif spec.socket:
        io = gateway_socket.create_io(spec, group, execmodel=group.execmodel)
    else:
        raise ValueError(specstring)
    tee = TeeIO(io)
    gw = gateway_bootstrap.bootstrap(tee, spec)
    gw.spec = spec
    group._register(gw)
    return gw, tee
