"""python -m vlib.shard <module> <specfile> <outfile>"""
import sys

from vlib import core

if __name__ == "__main__":
    core._shard_main(sys.argv[1:])
