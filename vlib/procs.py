"""L5 process tracking: every process of a case carries VERIF_TAG=<uuid> in its
environment, so descendants are found through /proc/*/environ even after
re-parenting.  Liveness = /proc/<pid>/stat exists and the state is not Z."""

from __future__ import annotations

import os
import signal
import time
import uuid


def new_tag() -> str:
    return uuid.uuid4().hex


def tagged_pids(tag: str) -> list[int]:
    needle = ("VERIF_TAG=" + tag).encode()
    out = []
    for name in os.listdir("/proc"):
        if not name.isdigit():
            continue
        try:
            with open(f"/proc/{name}/environ", "rb") as f:
                env = f.read()
        except OSError:
            continue
        if needle in env.split(b"\0"):
            out.append(int(name))
    return out


def state(pid: int):
    """process state letter, or None if the process is gone"""
    try:
        with open(f"/proc/{pid}/stat", "rb") as f:
            data = f.read()
    except OSError:
        return None
    try:
        return data[data.rindex(b")") + 2:].split()[0].decode()
    except Exception:
        return None


def alive(pid: int) -> bool:
    s = state(pid)
    return s is not None and s != "Z"


def cmdline(pid: int) -> str:
    try:
        with open(f"/proc/{pid}/cmdline", "rb") as f:
            return f.read().replace(b"\0", b" ").decode("utf-8", "replace")[:200]
    except OSError:
        return ""


def wait_gone(pids, timeout: float, step: float = 0.05):
    """-> (still_alive_pids, seconds_waited)"""
    t0 = time.monotonic()
    pids = list(pids)
    while True:
        left = [p for p in pids if alive(p)]
        dt = time.monotonic() - t0
        if not left or dt >= timeout:
            return left, dt
        time.sleep(step)


def kill_all(tag: str) -> int:
    n = 0
    for _ in range(3):
        pids = [p for p in tagged_pids(tag) if p != os.getpid()]
        if not pids:
            break
        for p in pids:
            try:
                os.kill(p, signal.SIGCONT)
                os.kill(p, signal.SIGKILL)
                n += 1
            except OSError:
                pass
        time.sleep(0.05)
    return n
