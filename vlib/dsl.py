"""Channel-program DSL shared by C06 (remote_exec semantics), C15 (bootstrap without execnet) and C16
(transport equivalence).  A program is a list of statements; it is rendered as a source string, as a
function in a generated module file, or as a module, and an interpreter predicts its transcript."""

from __future__ import annotations

import hashlib
import os

from . import values

CANON_SRC = '''
def _canon(x):
    import struct
    t = type(x)
    if x is None: return ("none",)
    if t is bool: return ("bool", x)
    if t is int: return ("int", hex(x))
    if t is float: return ("float", struct.pack("!d", x))
    if t is complex: return ("complex", struct.pack("!d", x.real), struct.pack("!d", x.imag))
    if t is str: return ("str", x)
    if t is bytes: return ("bytes", x)
    if t is list: return ("list", tuple(_canon(i) for i in x))
    if t is tuple: return ("tuple", tuple(_canon(i) for i in x))
    if t is dict: return ("dict", tuple((_canon(k), _canon(v)) for k, v in x.items()))
    if t is set: return ("set", tuple(sorted((_canon(i) for i in x), key=repr)))
    if t is frozenset: return ("frozenset", tuple(sorted((_canon(i) for i in x), key=repr)))
    return ("UNSUPPORTED", t.__module__ + "." + t.__qualname__)
def _digest(x):
    import hashlib
    return hashlib.sha1(repr(_canon(x)).encode("utf-8", "backslashreplace")).hexdigest()
'''


def digest(v) -> str:
    return hashlib.sha1(repr(values.canon(v)).encode("utf-8", "backslashreplace")).hexdigest()


class RawLit(str):
    """a text that is written into the program source as it is (inside quotes), not as an escape sequence"""

    def __repr__(self):
        return "RawLit(" + str.__repr__(self) + ")"


class MultiLit(RawLit):
    """... written as a triple-quoted literal that spans several source lines (some of them whitespace only)"""


MULTILINE_LITERALS = (MultiLit("first\n   \nlast"), MultiLit("a\n\t\n \nb\n    "), MultiLit("  indented\n      \n  text  \n"))

RAW_LITERALS = (RawLit("a\tb"), RawLit("\tlead"), RawLit("trail\t"), RawLit("x\x0cy"), RawLit("\u00e9\t\u65e5\u672c"), RawLit("two  spaces   three"),
                RawLit("\ufeffbom inside"), RawLit("nb\u00a0sp")) + MULTILINE_LITERALS

NOISE = ["print", "stdout_write", "dunder_stdout", "os_write1", "os_write2", "os_system", "stderr_write", "os_read0", "stdin_read", "child_reads_stdin", "rebind_stdout"]


def gen_program(rng, gen, allow_raise=True, big=False):
    """-> dict(stmts=[...], kwargs={...}).  Statements:
    ('echo', value) ('kwarg', name) ('noise', kind, nbytes) ('name',) ('chantype',) ('try_close',)
    ('send_const', literal) ('raise', ExcName, message) ('sub', value)  and the final marker is implicit."""
    n = rng.choice((1, 2, 4, 8))
    stmts = []
    kwargs = {}
    for i in range(n):
        k = rng.random()
        if k < 0.3:
            stmts.append(("echo", gen.value(rng.choice((1, 2, 4)))))
        elif k < 0.45:
            name = f"v{len(kwargs)}"
            kwargs[name] = gen.value(rng.choice((1, 2, 4)))
            stmts.append(("kwarg", name))
        elif k < 0.7:
            size = rng.choice((0, 1, 10, 1000, 70000)) if not big else rng.choice((100000, 1000000))
            stmts.append(("noise", rng.choice(NOISE), size))
        elif k < 0.78:
            stmts.append(("name",))
        elif k < 0.84:
            stmts.append(("chantype",))
        elif k < 0.9:
            stmts.append(("try_close",))
        elif k < 0.96:
            stmts.append(("send_const", rng.choice((1, "text", b"bytes", (1, 2), None, True, 2.5) + RAW_LITERALS)))
        else:
            stmts.append(("sub", rng.randrange(1000)))
    raise_at = None
    if allow_raise and rng.random() < 0.35:
        raise_at = rng.randrange(len(stmts) + 1)
        # (the failing statement may sit many frames below the top level of the program)
        stmts.insert(raise_at, ("raise", rng.choice(("ValueError", "KeyError", "RuntimeError", "GeneratorExit", "BaseException")), f"dsl-raise-{rng.randrange(10**6)}",
                                rng.choice((0, 0, 0, 3, 40, 120))))
    return {"stmts": stmts, "kwargs": kwargs}


def render_lines(prog, indent=""):
    """source lines of the statements (one logical statement may take several lines); returns
    (lines, line_index_of_raise or None).  Uses only the names `channel`, builtins and local imports."""
    L = []
    raise_line = None
    for st in prog["stmts"]:
        kind = st[0]
        if kind == "echo":
            L.append("_x = channel.receive()")
            L.append("channel.send(_x)")
        elif kind == "kwarg":
            L.append(f"channel.send(('kw', {st[1]}))")
        elif kind == "noise":
            nb = st[2]
            how = st[1]
            if how == "print":
                L.append(f"print('n' * {nb})")
            elif how == "stdout_write":
                L.append("import sys")
                L.append(f"sys.stdout.write('w' * {nb}); sys.stdout.flush()")
            elif how == "dunder_stdout":
                L.append("import sys")
                L.append(f"sys.__stdout__.write('d' * {nb}); sys.__stdout__.flush()")
            elif how == "os_write1":
                L.append("import os")
                L.append(f"os.write(1, b'o' * {min(nb, 60000)})")
            elif how == "os_write2":
                L.append("import os")
                L.append(f"os.write(2, b'')")
            elif how == "os_read0":
                # reading standard input (it is the null device for remote code): never bytes of the protocol
                L.append("import os")
                L.append("os.read(0, 65536)")
            elif how == "stdin_read":
                L.append("import sys")
                L.append("sys.stdin.read(100) if sys.stdin is not None else None")
            elif how == "child_reads_stdin":
                L.append("import os")
                L.append("os.system('head -c 4096 > /dev/null')")
            elif how == "rebind_stdout":
                # code that captures its own output: the worker's stdout object is replaced (and dropped); descriptor 1 is
                # still there afterwards and still leads nowhere near the protocol
                L.append("import sys, io, os")
                L.append("sys.stdout = io.StringIO()")
                L.append("print('captured')")
                L.append("os.write(1, b'raw write after rebinding')")
                L.append("sys.stdout = open(os.devnull, 'w')")
            elif how == "os_system":
                L.append("import os")
                L.append(f"os.system('echo {'s' * min(nb, 1000)}')")
            else:
                L.append("import sys")
                L.append("sys.stderr.write('')")
        elif kind == "name":
            L.append("channel.send(__name__)")
        elif kind == "chantype":
            L.append("channel.send(type(channel).__name__)")
        elif kind == "try_close":
            L.append("try:")
            L.append("    channel.close()")
            L.append("    channel.send('closed?!')")
            L.append("except OSError:")
            L.append("    channel.send('close refused')")
        elif kind == "send_const":
            if isinstance(st[1], MultiLit):
                L.append("channel.send(\'\'\'" + str(st[1]) + "\'\'\')")  # (one entry: its further lines are the literal's, not code)
            elif isinstance(st[1], RawLit):
                L.append("channel.send('" + str(st[1]) + "')")  # the characters themselves, not escapes
            else:
                L.append(f"channel.send({st[1]!r})")
        elif kind == "sub":
            L.append("_c = channel.gateway.newchannel()")
            L.append("channel.send(_c)")
            L.append(f"_c.send(('sub', {st[1]}))")
            L.append("_c.close()")
        elif kind == "raise":
            depth = st[3] if len(st) > 3 else 0
            if depth:
                L.append("def _deep(n):")
                L.append("    if n <= 0:")
                raise_line = sum(x.count("\n") + 1 for x in L)  # (an entry may span several source lines)
                L.append(f"        raise {st[1]}({st[2]!r})")
                L.append("    return _deep(n - 1)")
                L.append(f"_deep({depth})")
            else:
                raise_line = sum(x.count("\n") + 1 for x in L)
                L.append(f"raise {st[1]}({st[2]!r})")
    L.append("channel.send('__final__')")
    return [indent + l for l in L], raise_line


def render_string(prog):
    """-> (source, raise_lineno)"""
    lines, rl = render_lines(prog)
    pre = ["# generated by /verif/vlib/dsl.py", ""]
    src = "\n".join(pre + lines) + "\n"
    return src, (len(pre) + rl + 1) if rl is not None else None


def render_function_module(prog, modname):
    """module source defining `def remote_entry(channel, **kwargs)`; -> (source, raise_lineno)"""
    names = sorted(prog["kwargs"])
    sig = ", ".join(["channel"] + names)
    head = ["# generated by /verif/vlib/dsl.py", "", "", f"def remote_entry({sig}):"]
    lines, rl = render_lines(prog, indent="    ")
    src = "\n".join(head + lines) + "\n"
    return src, (len(head) + rl + 1) if rl is not None else None


def render_module(prog, modname):
    """a 'pure module': statements at top level behind the __channelexec__ guard"""
    head = ["# generated by /verif/vlib/dsl.py", "import os", ""]
    guard = ["if __name__ == '__channelexec__':"]
    lines, rl = render_lines(prog, indent="    ")
    src = "\n".join(head + guard + lines) + "\n"
    return src, (len(head) + len(guard) + rl + 1) if rl is not None else None


def drive(prog, ch, timeout=30.0, with_kwargs=True):
    """runs the initiator's side of the conversation and returns the observed transcript:
    list of entries; predicted entries come from predict()."""
    from execnet.gateway_base import RemoteError

    out = []
    try:
        for st in prog["stmts"]:
            kind = st[0]
            if kind == "echo":
                ch.send(st[1])
                back = ch.receive(timeout)
                out.append(("echo", digest(back)))
            elif kind == "kwarg":
                tag, back = ch.receive(timeout)
                out.append((tag, digest(back)))
            elif kind in ("name", "chantype", "try_close", "send_const"):
                out.append(ch.receive(timeout))
            elif kind == "sub":
                c = ch.receive(timeout)
                out.append(("subchannel", type(c).__name__, c.receive(timeout)))
                try:
                    c.receive(timeout)
                    out.append("sub-not-closed")
                except EOFError:
                    pass
            elif kind == "raise":
                break
        if not any(s[0] == "raise" for s in prog["stmts"]):
            out.append(ch.receive(timeout))
        # end of the conversation
        try:
            extra = ch.receive(timeout)
            out.append(("unexpected-extra-item", extra))
        except EOFError:
            out.append("EOF")
        except RemoteError as e:
            out.append(("RemoteError", str(e)))
    except RemoteError as e:
        out.append(("RemoteError", str(e)))
    except EOFError:
        out.append("EOF-early")
    return out


def to_py2(x):
    """what a value looks like after a trip through a connection configured with py3str_as_py2str=True"""
    t = type(x)
    if t is str:
        return x.encode("utf-8")
    if t is list:
        return [to_py2(i) for i in x]
    if t is tuple:
        return tuple(to_py2(i) for i in x)
    if t is dict:
        return {to_py2(k): to_py2(v) for k, v in x.items()}
    if t is set:
        return {to_py2(i) for i in x}
    if t is frozenset:
        return frozenset(to_py2(i) for i in x)
    return x


def predict(prog, kwargs_digests=True, py2=False):
    if py2:
        plain = predict(prog, kwargs_digests)
        out = []
        for e in plain:
            if e in ("EOF",) or (isinstance(e, tuple) and e and e[0] == "RemoteError"):
                out.append(e)
            elif isinstance(e, tuple) and e and e[0] == "echo":
                st = [s for s in prog["stmts"] if s[0] == "echo"][sum(1 for o in out if isinstance(o, tuple) and o and o[0] == "echo")]
                out.append(("echo", digest(to_py2(st[1]))))
            elif isinstance(e, tuple) and e and e[0] == "kw":
                names = [s[1] for s in prog["stmts"] if s[0] == "kwarg"]
                name = names[sum(1 for o in out if isinstance(o, tuple) and o and o[0] == b"kw")]
                out.append((b"kw", digest(to_py2(prog["kwargs"][name]))))
            elif isinstance(e, tuple) and e and e[0] == "subchannel":
                out.append(("subchannel", "Channel", to_py2(e[2])))
            else:
                out.append(to_py2(e))
        return out
    out = []
    for st in prog["stmts"]:
        kind = st[0]
        if kind == "echo":
            out.append(("echo", digest(st[1])))
        elif kind == "kwarg":
            out.append(("kw", digest(prog["kwargs"][st[1]])))
        elif kind == "name":
            out.append("__channelexec__")
        elif kind == "chantype":
            out.append("Channel")
        elif kind == "try_close":
            out.append("close refused")
        elif kind == "send_const":
            out.append(str(st[1]) if isinstance(st[1], RawLit) else st[1])
        elif kind == "sub":
            out.append(("subchannel", "Channel", ("sub", st[1])))
        elif kind == "raise":
            out.append(("RemoteError", st))
            return out
    out.append("__final__")
    out.append("EOF")
    return out


def compare(observed, predicted):
    """-> None or a description of the first difference.  RemoteError entries are matched by content."""
    if len(observed) != len(predicted):
        return f"length {len(observed)} != {len(predicted)}: observed tail {observed[-3:]!r}"
    for i, (o, p) in enumerate(zip(observed, predicted)):
        if isinstance(p, tuple) and p and p[0] == "RemoteError":
            if not (isinstance(o, tuple) and o and o[0] == "RemoteError"):
                return f"entry {i}: expected RemoteError, got {o!r}"
            st = p[1]
            if st[1] not in o[1] or st[2] not in o[1]:
                return f"entry {i}: RemoteError text lacks {st[1]}/{st[2]}: {o[1][-200:]!r}"
            continue
        if o != p or type(o) is not type(p):
            return f"entry {i}: {o!r} != {p!r}"
    return None
