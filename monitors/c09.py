"""C09 - WorkerPool runs every accepted task exactly once and reports truthfully."""

from __future__ import annotations

import itertools
import threading
import time

from vlib import core
from vlib.core import Result
from vlib.core import short

ID = "C09"
LEVEL = "exploration"
RULE = ("generated pool programs (pool kind x 1-3 spawner threads x task kinds return/raise/sleep/block x shutdown or terminate at a "
        "generated point x 0-2 waitall callers) executed on the real WorkerPool with an instrumented exec model; schedules: sync-point "
        "perturbation + line-level noise, PCT-style stalls (d<=3) and a single-pre-emption sweep over every line of WorkerPool and Reply "
        "(k-th hit stalled, k<=3, per pool kind); history checked offline against a sequential model. distinct = distinct (program, "
        "schedule mode) cases; signatures = distinct sync-point interleavings observed")
ASSUMPTIONS = [
    "for main_thread_only pools with a primary thread spawners are gated (next spawn only after the previous task's function "
    "returned), as the property's quantifier demands",
    "injected stalls <= 30 ms at line boundaries of execnet code only",
]
MINIMUM = {"runs": 300, "signatures": 50, "handoff_window_runs": 100, "sweep_fired": 100, "tasks_executed": 1000}
SHARD_TIMEOUT = {"quick": 120, "thorough": 2400}

KINDS = [("thread", False), ("thread", True), ("main_thread_only", False), ("main_thread_only", True)]


def shards(tier, seed):
    out = []
    nrand = 10 if tier == "quick" else 20
    for i in range(nrand):
        out.append({"kind": "random", "mode": ("sync", "noise", "pct")[i % 3], "runs": 500 if tier == "quick" else 20000})
    nsw = 6 if tier == "quick" else 12
    for i in range(nsw):
        out.append({"kind": "sweep", "part": i, "parts": nsw, "ks": [1, 2, 3] if tier == "quick" else [1, 2, 3, 4, 6]})
    out.append({"kind": "system", "runs": 3 if tier == "quick" else 60})
    return out


def run_shard(spec):
    if spec["kind"] == "system":
        return run_system(spec)
    return run_pool(spec)


# ---------------------------------------------------------------------------


class TaskError(Exception):
    pass


class TaskBaseError(BaseException):
    """a task may also end with something that is not an Exception (SystemExit, KeyboardInterrupt, GeneratorExit, ...)"""


def gen_program(rng, poolkind=None):
    backend, hasprimary = poolkind or rng.choice(KINDS)
    gated = backend == "main_thread_only" and hasprimary
    nsp = rng.choice((1, 1, 2, 3))
    spawners = []
    tid = 0
    for _ in range(nsp):
        tasks = []
        for _ in range(rng.choice((1, 2, 3, 5))):
            kind = rng.choice(("ret", "ret", "raise", "sleep", "block", "raise_base", "raise_sysexit", "ret_exception", "ret_none"))
            tasks.append((tid, kind))
            tid += 1
        spawners.append(tasks)
    total = tid
    prog = {
        "backend": backend, "hasprimary": hasprimary, "gated": gated, "spawners": spawners,
        # shutdown after that many spawn *calls* were started (None: only at the very end)
        "shutdown_at": rng.choice((None, 0, 1, 1, 2, total, total, max(0, total - 1))),
        "shutdown_how": rng.choice(("trigger", "terminate")),
        "waitalls": [(rng.randint(0, total), rng.choice((None, None, 0.0, 0.01))) for _ in range(rng.choice((0, 1, 2)))],
        "get_timeout_on_block": rng.random() < 0.5,
    }
    return prog


class Run:
    def __init__(self, prog, sched):
        from execnet.gateway_base import WorkerPool
        from vlib import imodel

        self.prog = prog
        self.sched = sched
        self.em = imodel.imodel(prog["backend"], sched)
        self.pool = WorkerPool(self.em, hasprimary=prog["hasprimary"])
        self.clock = itertools.count()
        self.ev: list = []
        self.release = threading.Event()
        self.gate = threading.Semaphore(1)
        self.spawn_calls = 0
        self.replies: dict[int, object] = {}
        self.hook_violations: list = []
        pool = self.pool

        def inv():
            try:
                if not pool._running and pool._waitall_events:
                    self.hook_violations.append("waitall events pending although nothing is running")
            except Exception as e:  # noqa
                self.hook_violations.append(repr(e))

        lock = pool._running_lock
        name = getattr(lock, "name", None)
        if name:
            sched.hooks.setdefault(name, []).append(inv)
            self.hook_name = name
        self.hook_calls = 0

    def log(self, *e):
        self.ev.append((next(self.clock),) + e)

    def task(self, tid, kind):
        self.log("task_start", tid, threading.get_ident())
        try:
            if kind == "ret":
                return ("value", tid)
            if kind == "raise":
                raise TaskError(tid)
            if kind == "ret_exception":
                # a function may *return* an exception object (a caught error handed back as a value)
                return (OSError, TaskError, KeyboardInterrupt, TaskBaseError)[tid % 4](tid)
            if kind == "ret_none":
                return None
            if kind == "raise_base":
                raise TaskBaseError(tid)
            if kind == "raise_sysexit":
                raise SystemExit(tid)
            if kind == "sleep":
                time.sleep(0.002)
                return ("value", tid)
            if kind == "block":
                self.release.wait(30)
                return ("value", tid)
        finally:
            self.log("task_end", tid)
            if self.prog["gated"]:
                self.gate.release()

    def spawner(self, tasks, ix):
        self.sched.set_role(f"sp{ix}")
        for tid, kind in tasks:
            if self.prog["gated"]:
                self.gate.acquire()
            self.spawn_calls += 1
            self.log("spawn_call", tid)
            try:
                r = self.pool.spawn(self.task, tid, kind)
            except ValueError:
                self.log("spawn_ret", tid, "refused")
                if self.prog["gated"]:
                    self.gate.release()
            except BaseException as e:  # noqa
                self.log("spawn_ret", tid, "exc:" + type(e).__name__)
                if self.prog["gated"]:
                    self.gate.release()
            else:
                self.replies[tid] = r
                self.log("spawn_ret", tid, "accepted")

    def primary(self):
        self.sched.set_role("primary")
        self.log("primary_enter")
        try:
            self.pool.integrate_as_primary_thread()
        except BaseException as e:  # noqa
            self.log("primary_exc", repr(e))
        self.log("primary_exit")

    def shutdowner(self):
        self.sched.set_role("shut")
        at = self.prog["shutdown_at"]
        while self.spawn_calls < at and not self.done_spawning.is_set():
            time.sleep(0)
        self.log("shutdown_call")
        if self.prog["shutdown_how"] == "trigger":
            self.pool.trigger_shutdown()
            self.log("shutdown_ret", None)
        else:
            r = self.pool.terminate(timeout=0.05)
            self.log("shutdown_ret", r)

    def waiter(self, ix, after, timeout):
        self.sched.set_role(f"wa{ix}")
        while self.spawn_calls < after and not self.done_spawning.is_set():
            time.sleep(0)
        self.log("waitall_call", ix, timeout)
        r = self.pool.waitall(timeout)
        self.log("waitall_ret", ix, r)

    def execute(self, deadline=4.0):
        prog = self.prog
        self.done_spawning = threading.Event()
        threads = {}
        if prog["hasprimary"]:
            threads["primary"] = threading.Thread(target=self.primary, daemon=True)
        sp = [threading.Thread(target=self.spawner, args=(t, i), daemon=True) for i, t in enumerate(prog["spawners"])]
        for i, t in enumerate(sp):
            threads[f"spawner{i}"] = t
        if prog["shutdown_at"] is not None:
            threads["shutdown"] = threading.Thread(target=self.shutdowner, daemon=True)
        for i, (after, timeout) in enumerate(prog["waitalls"]):
            threads[f"waitall{i}"] = threading.Thread(target=self.waiter, args=(i, after, timeout), daemon=True)
        for t in threads.values():
            t.start()
        # release blockers after a short while (gated programs need it to make progress)
        rel = threading.Timer(0.01 if prog["gated"] else 0.03, self.release.set)
        rel.daemon = True
        # a timed-out get on a blocked task must raise OSError and not cancel it
        self.get_checks = []
        self.cowaits = []
        self.cowait_threads = []
        t0 = time.monotonic()
        if prog["get_timeout_on_block"] and not prog["gated"]:
            for tasks in prog["spawners"]:
                for tid, kind in tasks:
                    if kind == "block":
                        while tid not in self.replies and time.monotonic() - t0 < 1.0 and any(s.is_alive() for s in sp):
                            time.sleep(0)
                        r = self.replies.get(tid)
                        if r is not None and not self.release.is_set():
                            # several threads wait for this one task while it is still running: each gets the outcome
                            def cowait(r=r, tid=tid):
                                try:
                                    self.cowaits.append((tid, "value", r.get(timeout=10.0)))
                                except OSError as e:
                                    self.cowaits.append((tid, "OSError", str(e)))
                                except BaseException as e:  # noqa
                                    self.cowaits.append((tid, type(e).__name__, str(e)))

                            self.cowait_threads = [threading.Thread(target=cowait, daemon=True) for _ in range(3)]
                            for ct in self.cowait_threads:
                                ct.start()
                            try:
                                r.get(timeout=0.001)
                                self.get_checks.append((tid, "returned"))
                            except OSError:
                                self.get_checks.append((tid, "OSError"))
                            except BaseException as e:  # noqa
                                self.get_checks.append((tid, type(e).__name__))
                        break
        rel.start()
        stuck = []
        for name in [n for n in threads if n.startswith("spawner")]:
            threads[name].join(max(0.1, deadline - (time.monotonic() - t0)))
            if threads[name].is_alive():
                stuck.append(name)
        self.done_spawning.set()
        self.release.set()
        if prog["shutdown_at"] is None:
            self.log("shutdown_call")
            self.pool.trigger_shutdown()
            self.log("shutdown_ret", None)
        for name, t in threads.items():
            if name.startswith("spawner"):
                continue
            t.join(max(0.1, deadline - (time.monotonic() - t0)))
            if t.is_alive():
                stuck.append(name)
        rel.cancel()
        for ct in self.cowait_threads:
            ct.join(max(0.1, deadline - (time.monotonic() - t0)))
        self.cowaiters_blocked = sum(1 for ct in self.cowait_threads if ct.is_alive())
        self.stuck = stuck
        # final quiescent point: everything accepted must be finished, waitall must say so
        self.final_waitall = None
        if not stuck:
            box = []
            w = threading.Thread(target=lambda: box.append(self.pool.waitall(5.0)), daemon=True)
            w.start()
            w.join(8.0)
            self.final_waitall = box[0] if box else "hung"
        return self


def check_history(res: Result, run: Run, label: str):
    prog = run.prog
    ev = run.ev
    kindname = f"{prog['backend']}{'+primary' if prog['hasprimary'] else ''}"
    t_of = {}
    accepted, refused = {}, {}
    starts, ends = {}, {}
    spawn_call = {}
    shutdown_call = shutdown_ret = None
    waitcalls, waitrets = {}, {}
    for e in ev:
        t, what = e[0], e[1]
        if what == "spawn_call":
            spawn_call[e[2]] = t
        elif what == "spawn_ret":
            if e[3] == "accepted":
                accepted[e[2]] = t
            elif e[3] == "refused":
                refused[e[2]] = t
            else:
                res.violation(f"spawn-raised-unexpected:{e[3]}:{kindname}", f"{label}")
        elif what == "task_start":
            starts.setdefault(e[2], []).append(t)
        elif what == "task_end":
            ends.setdefault(e[2], []).append(t)
        elif what == "shutdown_call":
            shutdown_call = t if shutdown_call is None else shutdown_call
        elif what == "shutdown_ret":
            shutdown_ret = (t, e[2]) if shutdown_ret is None else shutdown_ret
        elif what == "waitall_call":
            waitcalls[e[2]] = (t, e[3])
        elif what == "waitall_ret":
            waitrets[e[2]] = (t, e[3])
        elif what == "primary_exc":
            res.violation(f"primary-thread-raised:{kindname}", e[2])
    mech = lambda m: f"{m}:{kindname}"
    # stuck threads first: they explain everything else
    for name in run.stuck:
        if name.startswith("waitall"):
            res.violation(mech("waitall-never-returned"), f"{label}: {name} stuck; unfinished={sorted(set(accepted) - set(ends))}")
        elif name == "primary":
            res.violation(mech("primary-did-not-leave-after-shutdown"), f"{label}")
        elif name == "shutdown":
            res.violation(mech("terminate-never-returned"), f"{label}: unfinished={sorted(set(accepted) - set(ends))}")
        else:
            res.violation(mech("spawn-blocked"), f"{label}: {name}")
    # (1) exactly once
    for tid in accepted:
        n = len(starts.get(tid, ()))
        if n == 0:
            res.violation(mech("accepted-task-never-executed"), f"{label}: task {tid}; shutdown_call at {shutdown_call}, accepted at {accepted[tid]}")
        elif n > 1:
            res.violation(mech("task-executed-twice"), f"{label}: task {tid}")
    for tid in refused:
        if starts.get(tid):
            res.violation(mech("refused-task-executed"), f"{label}: task {tid}")
    res.count("tasks_executed", sum(len(v) for v in starts.values()))
    # (4) refusal exactly when shutdown was triggered
    for tid, t in refused.items():
        if shutdown_call is None or shutdown_call > t:
            res.violation(mech("spawn-refused-without-shutdown"), f"{label}: task {tid}")
    if shutdown_ret is not None:
        for tid, t in accepted.items():
            if spawn_call[tid] > shutdown_ret[0]:
                res.violation(mech("spawn-accepted-after-shutdown-returned"), f"{label}: task {tid}")
    # (2) replies
    kinds = {tid: k for tasks in prog["spawners"] for tid, k in tasks}
    if not run.stuck:
        for tid, r in run.replies.items():
            if tid not in ends:
                continue
            try:
                v = r.get(timeout=2.0)
                if kinds[tid] == "ret_exception":
                    if type(v) is not (OSError, TaskError, KeyboardInterrupt, TaskBaseError)[tid % 4] or v.args != (tid,):
                        res.violation(mech("reply-value-wrong"), f"{label}: task {tid} returned an exception object, get() -> {v!r}")
                elif kinds[tid] == "ret_none":
                    if v is not None:
                        res.violation(mech("reply-value-wrong"), f"{label}: task {tid} returned None, get() -> {v!r}")
                elif kinds[tid].startswith("raise") or v != ("value", tid):
                    res.violation(mech("reply-value-wrong"), f"{label}: task {tid} ({kinds[tid]}) -> {v!r}")
            except TaskError as e:
                if kinds[tid] != "raise" or e.args != (tid,):
                    res.violation(mech("reply-exception-wrong"), f"{label}: task {tid} -> {e!r}")
            except TaskBaseError as e:
                if kinds[tid] != "raise_base" or e.args != (tid,):
                    res.violation(mech("reply-exception-wrong"), f"{label}: task {tid} -> {e!r}")
            except SystemExit as e:
                if kinds[tid] != "raise_sysexit" or e.args != (tid,):
                    res.violation(mech("reply-exception-wrong"), f"{label}: task {tid} -> {e!r}")
            except BaseException as e:  # noqa
                res.violation(mech(f"reply-get-raised-{type(e).__name__}"), f"{label}: task {tid} ({kinds[tid]})")
            res.count("replies_checked")
    if run.cowait_threads and not run.stuck:
        res.count("tasks_with_several_waiters")
        tid0 = next((t for t, *_ in run.cowaits), None)
        if run.cowaiters_blocked:
            res.violation(mech("concurrent-waiter-never-woken"), f"{label}: {run.cowaiters_blocked} of {len(run.cowait_threads)} threads waiting in get() for one task are still blocked after it ended")
        for tid, how, v in run.cowaits:
            if tid in ends and (how, v) != ("value", ("value", tid)):
                res.violation(mech("concurrent-waiter-got-wrong-outcome"), f"{label}: task {tid}: get() in one of {len(run.cowait_threads)} concurrent waiters -> {how}: {v!r}")
    for tid, outcome in run.get_checks:
        res.count("timed_get_checks")
        if outcome != "OSError" and tid not in ends:
            res.violation(mech("timed-get-on-running-task-wrong"), f"{label}: task {tid} -> {outcome}")
        if tid in accepted and not run.stuck and not ends.get(tid):
            res.violation(mech("timed-get-cancelled-task"), f"{label}: task {tid}")
    # (3) truthful waitall / terminate
    truths = [(waitcalls[i][0], waitrets[i][0], waitrets[i][1], f"waitall{i}") for i in waitrets]
    if shutdown_ret is not None and shutdown_ret[1] is not None:
        truths.append((shutdown_call, shutdown_ret[0], shutdown_ret[1], "terminate"))
    for tc, tr, result, who in truths:
        res.count("waitall_results")
        if result:
            for tid, ta in accepted.items():
                # (terminate() refuses new work before it looks: whatever was accepted before it RETURNED is covered by its answer)
                if ta < (tr if who == "terminate" else tc) and not (ends.get(tid) and ends[tid][0] < tr):
                    res.violation(mech("waitall-true-with-unfinished-task"), f"{label}: {who} returned true at {tr}, task {tid} accepted at {ta} not finished")
    if run.final_waitall is not True and not run.stuck:
        res.violation(mech("final-waitall-not-true"), f"{label}: {run.final_waitall!r}; unfinished={sorted(set(accepted) - set(ends))}")
    for hv in run.hook_violations[:2]:
        res.violation(mech("invariant-under-running-lock"), f"{label}: {hv}")
    # the hand-off window: shutdown concurrent with a pending primary hand-off
    if prog["hasprimary"] and shutdown_call is not None and accepted:
        if any(abs(shutdown_call - t) <= 6 for t in accepted.values()):
            res.count("handoff_window_runs")


def run_pool(spec):
    from execnet import gateway_base as gb
    from vlib import imodel

    res = Result()
    rng = core.rng_for("C09", spec["tier"], spec["seed"], spec["shard"])
    pre = imodel.Preempt(core.REPO_SRC)
    pre.install()
    try:
        if spec["kind"] == "random":
            for i in range(spec["runs"]):
                if res.enough(8):
                    break
                prog = gen_program(rng)
                sseed = rng.getrandbits(32)
                sched = imodel.Sched(sseed, p_yield=0.3, p_sleep=0.1, max_sleep=0.002)
                mode = spec["mode"]
                if mode == "noise":
                    pre.set_noise(sseed, rng.choice((0.02, 0.1)))
                elif mode == "pct":
                    pre.set_pct(sseed, 400, rng.choice((1, 2, 3)), stall=rng.choice((0.005, 0.02)))
                run = Run(prog, sched).execute()
                pre.off()
                label = f"mode={mode} sched_seed={sseed} prog={prog}"
                check_history(res, run, label)
                res.count("runs")
                res.sig(sched.signature())
                res.case(core.h64(mode, repr(prog), sseed))
                if i < 2:
                    res.sample({"program": prog, "mode": mode, "events": [list(map(str, e)) for e in run.ev[:14]]})
        else:
            lines = imodel.function_lines(gb.WorkerPool, gb.Reply)
            res.info["sweep_lines"] = len(lines)
            targets = [(ln, k, pk) for ln in lines for k in spec["ks"] for pk in KINDS]
            targets = [t for i, t in enumerate(targets) if i % spec["parts"] == spec["part"]]
            for (fn, ln), k, pk in targets:
                if res.enough(8):
                    break
                # a fixed small program that exercises hand-off + shutdown + waitall, varied by rng
                prog = gen_program(rng, pk)
                if prog["shutdown_at"] is None:
                    prog["shutdown_at"] = rng.choice((1, 2))
                sseed = rng.getrandbits(32)
                sched = imodel.Sched(sseed, p_yield=0.1, p_sleep=0.0)
                pre.restart()
                pre.set_sweep(fn, ln, k, stall=0.03)
                run = Run(prog, sched).execute()
                pre.off()
                if pre.fired:
                    res.count("sweep_fired")
                label = f"sweep line={ln} k={k} sched_seed={sseed} prog={prog}"
                check_history(res, run, label)
                res.count("runs")
                res.count("sweep_runs")
                res.sig(sched.signature())
                res.case(core.h64("sweep", ln, k, repr(prog)))
            res.sample({"sweep": f"{len(targets)} (line,k,poolkind) targets of {len(lines)} lines in WorkerPool+Reply"})
    finally:
        pre.uninstall()
    return res


# ---------------------------------------------------------------------------
# system level: remote_exec directly followed by terminate


def run_system(spec):
    import os
    import subprocess
    import sys
    import tempfile

    res = Result()
    script = r"""
import sys, time, os
import execnet
assert execnet.__file__.startswith(os.path.join(os.environ.get('VERIF_REPO', '/repo'), 'src')), execnet.__file__
out = sys.argv[1]; model = sys.argv[2]
group = execnet.Group()
gw = group.makegateway("popen//execmodel=" + model)
ch = gw.remote_exec("open(%r, 'a').write('ran\\n')" % out)
t0 = time.monotonic()
group.terminate(10)
print("TERMINATE_S", time.monotonic() - t0)
"""
    for i in range(spec["runs"]):
        for model in ("thread", "main_thread_only"):
            d = tempfile.mkdtemp(prefix="verif-c09-")
            out = os.path.join(d, "ran.txt")
            env = core.child_env({"EXECNET_DEBUG": "2"})
            if i % 2:
                env["EXECNET_VERIF"] = "noise:%d:0.03:5" % i  # schedule noise in initiator and worker alike
            p = subprocess.run([core.PY, "-c", script, out, model], env=env, capture_output=True, timeout=120)
            txt = p.stdout.decode()
            err = p.stderr.decode()
            res.count("system_runs")
            res.case(core.h64("system", model, i))
            try:
                took = float(txt.split("TERMINATE_S")[1].split()[0])
            except Exception:
                res.violation(f"system-run-failed:{model}", (txt + err)[-500:])
                continue
            try:
                ran = open(out).read().count("ran")
            except OSError:
                ran = 0
            if ran != 1:
                res.violation(f"remote-exec-before-terminate-ran-{ran}-times:{model}", f"terminate took {took:.2f}s")
            if "sending ourselves a SIGINT" in err:
                res.violation(f"worker-needed-sigint-to-terminate:{model}", f"terminate took {took:.2f}s")
            elif took > 4.5:
                res.violation(f"terminate-stalled-after-remote-exec:{model}", f"{took:.2f}s")
            res.info.setdefault("system_terminate_s", {})[f"{model}_{i}"] = round(took, 2)
            import shutil

            shutil.rmtree(d, ignore_errors=True)
    res.sample({"system": "remote_exec directly followed by group.terminate(10)"})
    return res
