"""C01 - serializer round-trip is total and type-exact; unsupported values are
rejected with DumpError before anything reaches the connection."""

from __future__ import annotations

import io
import subprocess
import sys
import time

from ref import codec
from vlib import core
from vlib import values
from vlib.core import Result
from vlib.core import short

ID = "C01"
LEVEL = "exploration"
RULE = ("values from a seeded recursive grammar (boundary-biased leaves, containers to depth 6, "
        "hand-picked shapes to nesting depth 150); a case is one (value, path) evaluation; distinct = "
        "distinct reference encodings of the value; negative cases = unsupported leaf x position x depth")
ASSUMPTIONS = [
    "only values the generator produces; nesting deeper than 150 is not driven (the encoder is recursive; "
    "CPython's recursion limit bounds it near 330)",
    "ints beyond CPython's 4300-digit str limit are driven through dumps/loads only",
]
MINIMUM = {"distinct": 300, "neg_cases": 100, "chan_items": 50}

N = {"quick": 9000, "thorough": 150000}
SHARD_TIMEOUT = {"quick": 420, "thorough": 6000}
NSH = {"quick": 16, "thorough": 32}


def shards(tier, seed):
    return [{"n": N[tier], "kind": "mix"} for _ in range(NSH[tier])]


class ChunkRaw(io.RawIOBase):
    def __init__(self, data: bytes, rng):
        self.data = data
        self.p = 0
        self.rng = rng

    def readable(self):
        return True

    def readinto(self, b):
        if self.p >= len(self.data):
            return 0
        n = min(len(b), self.rng.choice((1, 1, 2, 3, 7, 64, 4096)), len(self.data) - self.p)
        b[:n] = self.data[self.p:self.p + n]
        self.p += n
        return n


def int_class(v) -> str:
    if type(v) is int:
        if v < -(2**31):
            return "int-below-int32"
        if v > 2**31 - 1:
            return "int-above-int32"
    return type(v).__name__


def first_diff(a, b, path="$"):
    """path of the first differing position of two canons"""
    if a == b:
        return None
    if isinstance(a, tuple) and isinstance(b, tuple) and a and b and a[0] == b[0] and len(a) == len(b):
        for i, (x, y) in enumerate(zip(a, b)):
            d = first_diff(x, y, f"{path}.{a[0]}[{i}]" if isinstance(a[0], str) else f"{path}[{i}]")
            if d:
                return d
    return f"{path}: {short(a, 120)} != {short(b, 120)}"


def digits_over_limit(v) -> bool:
    """does the value contain an int beyond the interpreter's str-digit limit?"""
    lim = sys.get_int_max_str_digits() if hasattr(sys, "get_int_max_str_digits") else 0
    if not lim:
        return False

    def walk(x):
        t = type(x)
        if t is int:
            return abs(x) >= 10 ** lim
        if t in (list, tuple, set, frozenset):
            return any(walk(i) for i in x)
        if t is dict:
            return any(walk(k) or walk(i) for k, i in x.items())
        return False

    return walk(v)


ECHO = r"""
from vlib.values import canon
import hashlib
for item in channel:
    if item == "__stop__":
        break
    c = canon(item)
    channel.send((item, hashlib.sha1(repr(c).encode("utf-8", "backslashreplace")).hexdigest()))
"""


def poison(x, depth=0):
    """add junk to every mutable container of a loaded value"""
    if depth > 60:
        return
    if isinstance(x, list):
        for y in x:
            poison(y, depth + 1)
        x.append("poison")
    elif isinstance(x, dict):
        for y in list(x.values()):
            poison(y, depth + 1)
        x["poison"] = "poison"
    elif isinstance(x, set):
        x.add("poison")
    elif isinstance(x, tuple):
        for y in x:
            poison(y, depth + 1)


def stream_sequence(res, execnet, rng, triples, kind=None):
    import os
    import tempfile

    blob = b"".join(t[2] for t in triples)
    prefix = rng.choice((b"", b"HEADER-OF-THE-APPLICATION\n"))
    kind = kind or rng.choice(("bytesio", "buffered_file", "raw_file", "pipe_raw"))
    path = None
    try:
        if kind == "bytesio":
            f = io.BytesIO(prefix + blob)
        elif kind == "pipe_raw":
            if len(prefix + blob) > 60000:
                return
            r, w_ = os.pipe()
            os.write(w_, prefix + blob)
            os.close(w_)
            f = open(r, "rb", 0)
        else:
            fd, path = tempfile.mkstemp(prefix="verif-c01-")
            os.write(fd, prefix + blob)
            os.close(fd)
            f = open(path, "rb", -1 if kind == "buffered_file" else 0)
        with f:
            if prefix and f.read(len(prefix)) != prefix:
                res.inconclusive.append("stream_sequence: prefix read failed")
                return
            for k, (v, cv, b) in enumerate(triples):
                try:
                    got = execnet.load(f)
                except BaseException as e:  # noqa
                    res.violation(f"stream-sequence-load-raises:{kind}", f"value #{k} of {len(triples)} after a {len(prefix)}-byte header: {type(e).__name__}: {e}")
                    return
                if values.canon(got) != cv:
                    res.violation(f"stream-sequence-value-wrong:{kind}", f"value #{k} of {len(triples)}: {first_diff(cv, values.canon(got))}")
                    return
            if f.read(1) != b"":
                res.violation(f"stream-sequence-left-bytes:{kind}", "")
        res.count("stream_sequences")
    finally:
        if path:
            os.unlink(path)


def run_shard(spec):
    import hashlib

    import execnet
    from execnet import gateway_base as gb
    from vlib import pairs

    res = Result()
    rng = core.rng_for("C01", spec["tier"], spec["seed"], spec["shard"])
    g = values.Gen(rng, max_bytes=4096 if spec["tier"] == "quick" else 70000)
    n = spec["n"]

    # ---- in-process pair (pipe or tcp) and, on shard 0/1, a real popen worker
    transport = "pipe" if spec["shard"] % 2 == 0 else "tcp"
    pair = pairs.Pair(transport, tee=True)
    ech = pair.gw.remote_exec(ECHO)
    real_gw = None
    real_ch = None
    if spec["shard"] < 2:
        grp = execnet.Group()
        real_gw = grp.makegateway("popen" if spec["shard"] == 0 else f"popen//python={sys.executable}")
        real_ch = real_gw.remote_exec(ECHO)

    def chan_roundtrip(ch, v, cv, label):
        ch.send(v)
        back, digest = ch.receive(30)
        res.count("chan_items")
        want = hashlib.sha1(repr(cv).encode("utf-8", "backslashreplace")).hexdigest()
        if digest != want:
            res.violation(f"channel-forward-mismatch:{label}", f"peer saw a different value for {short(v)}")
        cb = values.canon(back)
        if cb != cv:
            res.violation(f"channel-roundtrip-mismatch:{label}", f"{first_diff(cv, cb)} value={short(v)}")

    # the same (big) object sent again after it was changed in place, on the same and on another channel: what goes out is
    # what the object holds at the moment of each send
    for make, change in ((lambda: [b"x" * 40000, 1], lambda o: o.append("added")), (lambda: {"k": "v" * 50000}, lambda o: o.update(k2=2)),
                         (lambda: [list(range(12000))], lambda o: o[0].__setitem__(0, "changed")), (lambda: {1, 2, "s" * 40000}, lambda o: o.add(3))):
        obj = make()
        for ch_, label_ in [(ech, "pair")] + ([(real_ch, "real")] if real_ch is not None else []):
            chan_roundtrip(ch_, obj, values.canon(obj), "resend-" + label_)
            change(obj)
            chan_roundtrip(ch_, obj, values.canon(obj), "resend-after-change-" + label_)
            res.count("objects_sent_again_after_a_change")
    for i in range(n):
        if i % 9 == 0:
            v = g.special(i // 9 + spec["shard"])
        else:
            v = g.value()
        cv = values.canon(v)
        try:
            refb = codec.encode(v)
        except RecursionError:
            res.count("ref_recursion")
            continue
        res.case(core.h64(refb))
        over = digits_over_limit(v)
        if i < 3:
            res.sample(short(v, 200))
        # path 1: dumps/loads
        try:
            b = execnet.dumps(v)
            w = execnet.loads(b)
        except BaseException as e:
            if over and isinstance(e, ValueError) and "digit" in str(e):
                res.violation("huge-int-str-digits-limit", f"{type(e).__name__}: {e}")
            else:
                res.violation(f"dumps-loads-raises:{type(e).__module__}.{type(e).__name__}:{int_class_of(v)}",
                              f"{type(e).__name__}: {e} for {short(v)}")
            continue
        res.count("roundtrips")
        cw = values.canon(w)
        if cw != cv:
            res.violation(f"roundtrip-mismatch:{kind_of_diff(cv, cw)}", f"{first_diff(cv, cw)} value={short(v)}")
            continue
        # a loaded value belongs to its receiver: whatever is done to its containers never shows up in values loaded later
        if i % 5 == 0 and len(b) < 20000:
            poison(w)
            try:
                w_again = execnet.loads(b)
                res.count("reloads_after_mutating_the_first_result")
                if values.canon(w_again) != cv:
                    res.violation("loaded-value-shares-objects-with-an-earlier-load", f"{first_diff(cv, values.canon(w_again))} value={short(v)}")
                    continue
            except BaseException as e:  # noqa
                res.violation(f"reload-raises:{type(e).__name__}", f"{e} for {short(v)}")
                continue
        if i == 2:
            # payloads beyond 64 KiB read from real files (an implementation may take those piecewise): same types, hashable
            # where they are keys or members
            bigs = [b"b" * 70000, "s" * 70000, {b"k" * 66000: ("t" * 66000,)}, (b"x" * 300000, frozenset([b"m" * 65537])), b"e" * 65536, b"o" * 65537]
            for kind_ in ("buffered_file", "raw_file"):
                stream_sequence(res, execnet, rng, [(x, values.canon(x), codec.encode(x)) for x in bigs], kind=kind_)
                res.count("big_payload_stream_sequences")
        # several values written to one stream one after the other are read back one by one (each load stops at its STOP)
        if i % 40 == 1 and len(refb) < 20000 and not over:
            extras = [x for x in (g.value(2), g.value(2)) if not digits_over_limit(x)]
            try:
                seq = [(v, cv, b)] + [(x, values.canon(x), codec.encode(x)) for x in extras]
            except RecursionError:
                seq = [(v, cv, b)]
            stream_sequence(res, execnet, rng, seq)
        # path 2: dump to a write collector, load from a chunked buffered stream
        if i % 3 == 0:
            chunks = []

            class W:
                def write(self, d):
                    chunks.append(bytes(d))

            try:
                execnet.dump(W(), v)
                data = b"".join(chunks)
                if data != b:
                    res.violation("dump-differs-from-dumps", short(v))
                stream = io.BufferedReader(ChunkRaw(data, rng), buffer_size=rng.choice((1, 8, 8192)))
                w2 = execnet.load(stream)
                res.count("stream_roundtrips")
                if values.canon(w2) != cv:
                    res.violation("stream-roundtrip-mismatch", f"{first_diff(cv, values.canon(w2))} value={short(v)}")
                if stream.read(1) != b"":
                    res.violation("stream-load-left-bytes", short(v))
            except BaseException as e:
                res.violation(f"stream-raises:{type(e).__name__}", f"{e} for {short(v)}")
        # path 3: through channels
        if not over and i % 4 == 0 and len(refb) < 200000:
            try:
                chan_roundtrip(ech, v, cv, transport)
                if real_ch is not None and i % 8 == 0:
                    chan_roundtrip(real_ch, v, cv, "popen")
            except BaseException as e:
                res.violation(f"channel-path-raises:{type(e).__name__}", f"{e} for {short(v)}")
                break

    # ---- negative side
    leaves = values.unsupported_leaves()
    g.huge_ints = False  # the surrounding value must itself be serialisable on this interpreter
    g.pool.clear()
    DumpError = execnet.DumpError
    nneg = 0
    for li, (label, factory, hashable) in enumerate(leaves):
        for rep in range(3 if spec["tier"] == "quick" else 12):
            if (li * 7 + rep + spec["shard"]) % 4 != 0 and spec["tier"] == "quick":
                continue
            bad = factory()
            base = g.value(3)
            depth = rng.choice((0, 0, 1, 2, 5, 20))
            try:
                v, path = values.plant(rng, base, bad, hashable, depth)
            except TypeError:
                continue
            nneg += 1
            res.count("neg_cases")
            res.case(core.h64("neg", label, tuple(path)))
            try:
                execnet.dumps(v)
            except DumpError:
                res.count("neg_dumperror")
            except BaseException as e:
                res.violation(f"unsupported-wrong-exception:{label}:{type(e).__name__}",
                              f"dumps raised {type(e).__name__}: {e} at path {path}")
            else:
                res.violation(f"unsupported-accepted:{label}", f"dumps accepted {label} at {path}")
            # channel path: nothing may reach the wire, channel stays usable
            if rep == 0 or spec["tier"] == "thorough":
                before = len(pair.io_a.writes)
                try:
                    ech.send(v)
                except DumpError:
                    pass
                except BaseException as e:
                    res.violation(f"unsupported-wrong-exception-send:{label}:{type(e).__name__}",
                                  f"send raised {type(e).__name__}: {e} at path {path}")
                else:
                    res.violation(f"unsupported-accepted-send:{label}", f"send accepted {label} at {path}")
                    try:
                        ech.receive(5)
                    except BaseException:
                        pass
                wrote = pair.io_a.writes[before:]
                if wrote:
                    res.violation(f"bytes-on-wire-before-reject:{label}",
                                  f"{sum(map(len, wrote))} bytes written for rejected send at {path}")
                try:
                    chan_roundtrip(ech, ("sentinel", nneg), values.canon(("sentinel", nneg)), "after-reject")
                    res.count("neg_channel_still_usable")
                except BaseException as e:
                    res.violation(f"channel-unusable-after-reject:{label}", f"{type(e).__name__}: {e}")
                    break

    # wire purity of the pair: every byte the initiator read is a well-formed DATA/CLOSE frame
    try:
        ech.send("__stop__")
        ech.waitclose(10)
    except BaseException as e:
        res.violation("echo-channel-did-not-close", f"{type(e).__name__}: {e}")
    pair.close()
    if real_gw is not None:
        try:
            real_ch.send("__stop__")
            real_ch.waitclose(10)
        except BaseException as e:
            res.violation("real-echo-channel-did-not-close", f"{type(e).__name__}: {e}")
        grp.terminate(2)
    res.info["generator_class_counts"] = g.counts
    for k, c in g.counts.items():
        res.count("gen_" + k, c)
    return res


def int_class_of(v) -> str:
    """coarse classification of the value for mechanism keys"""
    seen = set()

    def walk(x):
        t = type(x)
        if t is int:
            seen.add(int_class(x))
        elif t in (list, tuple, set, frozenset):
            for i in x:
                walk(i)
        elif t is dict:
            for k, i in x.items():
                walk(k)
                walk(i)
        else:
            seen.add(t.__name__)

    walk(v)
    for k in ("int-below-int32", "int-above-int32"):
        if k in seen:
            return k
    return "other"


def kind_of_diff(a, b) -> str:
    d = first_diff(a, b) or ""
    # the tag of the innermost differing node
    import re

    m = re.findall(r"\('(\w+)'", d)
    return "/".join(m[:2]) if m else "?"
