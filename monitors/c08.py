"""C08 - message frames survive any chunking and never interleave on the wire."""

from __future__ import annotations

import struct
import threading
import time

from ref import codec
from vlib import core
from vlib.core import Result
from vlib.core import short

ID = "C08"
LEVEL = "exploration"
RULE = ("(a) frame lists (all message codes, channel ids over the signed 32-bit range, payload 0..MBs) read back through the real "
        "Popen2IO / SocketIO classes over scripted file/socket objects that return 1..n bytes per low-level read, incl. every "
        "split position of the 9-byte header and every truncation point; (b) 2..8 threads sending concurrently on one gateway "
        "(in-process pipe / TCP / proxied, raw reference-parser as peer; real popen / socket / via workers in both directions) under "
        "sync-point and line-level schedule perturbation. distinct = distinct (frame list, chunking) cases + distinct interleaving signatures")
ASSUMPTIONS = [
    "pipe transport is exercised with the same kind of file objects the real popen transport uses (buffered binary files); "
    "TCP through real loopback sockets",
]
MINIMUM = {"distinct": 300, "frames_decoded": 3000, "concurrent_runs": 20, "concurrent_frames": 2000}
SHARD_TIMEOUT = {"quick": 120, "thorough": 2400}


def shards(tier, seed):
    out = [{"kind": "chunk", "n": 400 if tier == "quick" else 3000} for _ in range(8 if tier == "quick" else 16)]
    nconc = 25 if tier == "quick" else 300
    for tr in ("pipe", "pipe", "tcp", "tcp", "tcp", "proxy"):
        out.append({"kind": "conc", "transport": tr, "runs": nconc})
    out.append({"kind": "slowpeer", "runs": 150 if tier == "quick" else 6000})
    out.append({"kind": "gevent_master", "runs": 3 if tier == "quick" else 60})
    for specname in ("popen", "socket", "via"):
        out.append({"kind": "real", "spec": specname, "runs": 6 if tier == "quick" else 60})
    return out


def run_shard(spec):
    return {"chunk": run_chunk, "conc": run_conc, "real": run_real, "slowpeer": run_slowpeer, "gevent_master": run_gevent_master}[spec["kind"]](spec)


# ---------------------------------------------------------------------------
# (a) chunking


class ChunkFile:
    """file-like whose read(n) returns at most the next scheduled chunk"""

    def __init__(self, data: bytes, sizes):
        self.data = data
        self.p = 0
        self.sizes = sizes
        self.calls = 0

    def read(self, n):
        self.calls += 1
        if self.p >= len(self.data):
            return b""
        k = max(1, min(n, next(self.sizes), len(self.data) - self.p))
        b = self.data[self.p:self.p + k]
        self.p += k
        return b

    def write(self, d):
        raise AssertionError

    def flush(self):
        pass

    def close(self):
        pass


class ChunkSock(ChunkFile):
    def recv(self, n):
        return self.read(n)

    def recv_into(self, buf, nbytes=0):
        data = self.read(nbytes or len(buf))
        buf[: len(data)] = data
        return len(data)

    def setsockopt(self, *a):
        pass

    def sendall(self, d):
        raise AssertionError


def gen_frames(rng, big: int):
    n = rng.choice((1, 2, 3, 5, 12))
    frames = []
    for _ in range(n):
        code = rng.choice(list(codec.MSGNAME)) if rng.random() < 0.9 else rng.choice((-128, -1, 8, 100, 127))
        cid = rng.choice((0, 1, -1, 2, 2**31 - 1, -2**31, 2**31 - 2, -2**31 + 1, 255, 256, 65536, rng.randint(-2**31, 2**31 - 1)))
        size = rng.choice((0, 0, 1, 8, 9, 10, 100, 4095, 4096, 4097, 65535, 65536, 65537)) if rng.random() < 0.93 else rng.randint(100000, big)
        payload = rng.randbytes(size) if size < 70000 else rng.randbytes(1024) * (size // 1024)
        frames.append((code, cid, payload))
    return frames


def sizes_iter(rng, mode):
    if mode == "ones":
        while True:
            yield 1
    elif mode == "random":
        while True:
            yield rng.choice((1, 2, 3, 4, 5, 8, 9, 10, 100, 4096, 65536, 1 << 20))
    else:  # ("split", k): first chunk k bytes, then everything
        yield mode[1]
        while True:
            yield 1 << 30


def run_chunk(spec):
    from execnet import gateway_base as gb
    from execnet.gateway_socket import SocketIO

    res = Result()
    rng = core.rng_for("C08a", spec["tier"], spec["seed"], spec["shard"])
    em = gb.get_execmodel("thread")
    big = 1 << 20 if spec["tier"] == "quick" else 8 << 20

    def read_all(io, nframes, expect_eof_inside):
        got = []
        try:
            while True:
                m = gb.Message.from_io(io)
                got.append((m.msgcode, m.channelid, m.data))
        except EOFError:
            return got, "eof"
        except BaseException as e:
            return got, f"{type(e).__name__}: {e}"

    from execnet import gateway_io
    from vlib import pairs

    ppair = pairs.Pair("pipe")

    def proxy_read_back(frames, stream, mode):
        """the proxied transport: the byte stream arrives as items of a channel, in whatever pieces the forwarder
        happens to send (here: a body playing the forwarder sends a generated chunking, empty items included)"""
        ch = ppair.gw.remote_exec("c = channel.receive()\nfor x in channel.receive():\n    channel.send(x)\n")
        pio = gateway_io.ProxyIO(ch, ppair.gw.execmodel)
        chunks, p, it = [], 0, sizes_iter(rng, mode)
        while p < len(stream):
            n = next(it)
            chunks.append(stream[p:p + n])
            p += n
            if rng.random() < 0.05:
                chunks.append(b"")
        ch.send(chunks)
        got, end = read_all(pio, len(frames), False)
        res.count("proxied_streams_read_back")
        res.count("frames_decoded", len(got))
        if got != frames or end != "eof":
            res.violation("frames-not-read-back:proxied", f"mode={mode} items={len(chunks)} end={end} got {len(got)}/{len(frames)} frames; "
                          f"first={short([(c, i_, len(p_)) for c, i_, p_ in frames][:3])}")

    for i in range(spec["n"]):
        frames = gen_frames(rng, big)
        stream = b"".join(codec.frame(*f) for f in frames)
        if not res.enough():
            for mode in (("ones" if len(stream) < 3000 else "random"), "random", ("split", rng.randint(1, 12))):
                try:
                    proxy_read_back(frames, stream, mode)
                except BaseException as e:  # noqa
                    res.violation(f"proxied-read-back-raised:{type(e).__name__}", f"mode={mode}: {e}")
        modes = ["ones" if len(stream) < 20000 else "random", "random"]
        modes += [("split", k) for k in range(1, 10)]  # every split position inside the first header
        if len(frames) > 1:
            off = len(codec.frame(*frames[0]))
            modes += [("split", off + k) for k in range(0, 10)]  # and inside the second header
        for mode in modes:
            for cls in ("popen", "socket"):
                if cls == "popen":
                    io = gb.Popen2IO(ChunkFile(b"", iter(())), ChunkFile(stream, sizes_iter(rng, mode)), em)
                else:
                    io = SocketIO(ChunkSock(stream, sizes_iter(rng, mode)), em)
                got, end = read_all(io, len(frames), False)
                res.case(core.h64(stream[:4000], len(stream), str(mode), cls))
                res.count("frames_decoded", len(got))
                res.count("end_" + ("EOFError" if end == "eof" else end.split(":")[0]))
                if got != frames:
                    res.violation(f"frames-not-read-back:{cls}", f"mode={mode} end={end} got {len(got)}/{len(frames)} frames; "
                                  f"first={short([(c, i_, len(p)) for c, i_, p in frames][:3])}")
        # truncation: a stream that ends inside a frame yields the complete frames, then EOFError, nothing partial
        cuts = set(range(0, min(len(stream), 40))) | {rng.randrange(len(stream) + 1) for _ in range(10)}
        bounds = []
        p = 0
        for f in frames:
            bounds.append(p)
            p += 9 + len(f[2])
        bounds.append(p)
        for b in bounds:
            cuts |= {max(0, b - 1), b, min(len(stream), b + 1), min(len(stream), b + 8), min(len(stream), b + 9)}
        for cut in sorted(cuts):
            want = [f for f, endpos in zip(frames, bounds[1:]) if endpos <= cut]
            for cls in ("popen", "socket"):
                if cls == "popen":
                    io = gb.Popen2IO(ChunkFile(b"", iter(())), ChunkFile(stream[:cut], sizes_iter(rng, "random")), em)
                else:
                    io = SocketIO(ChunkSock(stream[:cut], sizes_iter(rng, "random")), em)
                got, end = read_all(io, len(want), True)
                res.count("truncations")
                res.count("frames_decoded", len(got))
                if got != want:
                    res.violation(f"truncated-stream-delivered-partial-frame:{cls}", f"cut={cut}/{len(stream)} end={end} got {len(got)} want {len(want)} frames")
        if i < 2:
            res.sample({"frames": [(c, ci, len(p)) for c, ci, p in frames], "stream_len": len(stream)})
    # to_io emits exactly the reference frame bytes
    class W:
        def __init__(self):
            self.calls = []

        def write(self, d):
            self.calls.append(bytes(d))

    ppair.close()
    for f in gen_frames(rng, 100000):
        if not -128 <= f[0] <= 127:
            continue
        w = W()
        gb.Message(f[0], f[1], f[2]).to_io(w)
        res.count("to_io_calls")
        # (how many write calls are used is the implementation's business as long as concurrent
        # frames do not interleave - that is what the wire-level checks below observe)
        if b"".join(w.calls) != codec.frame(*f):
            res.violation("to-io-bytes-differ-from-reference-frame", f"frame {(f[0], f[1], len(f[2]))}")
    return res


# ---------------------------------------------------------------------------
# (b) concurrent senders, in-process, raw peer


def make_payload(tag: bytes, size: int) -> bytes:
    reps = size // len(tag) + 1
    return (tag * reps)[:size] if size else b""


def check_stream(res, stream: bytes, sent: dict, label: str):
    """sent: {thread: [(code, cid, payload), ...]} in per-thread send order"""
    try:
        frames, rest = codec.parse_frames(stream)
    except codec.RefError as e:
        res.violation(f"wire-stream-malformed:{label}", str(e))
        return
    if rest:
        res.violation(f"wire-stream-malformed:{label}", f"{len(rest)} trailing bytes that are not a frame")
    res.count("concurrent_frames", len(frames))
    # every payload carries its sender thread and sequence number in its first bytes
    per_thread: dict[int, list] = {t: [] for t in sent}
    stray = 0
    for code, cid, payload, s, e in frames:
        if code == codec.MSG["GATEWAY_TERMINATE"]:
            continue
        key = None
        for t, lst in sent.items():
            idx = len(per_thread[t])
            if idx < len(lst) and lst[idx] == (code, cid, payload):
                key = t
                break
        if key is None:
            stray += 1
            if stray <= 2:
                res.violation(f"wire-frame-not-sent-or-out-of-order:{label}",
                              f"frame code={code} cid={cid} len={len(payload)} head={payload[:24]!r} matches no sender's next frame")
        else:
            per_thread[key].append((code, cid, payload))
    for t, lst in sent.items():
        if len(per_thread[t]) != len(lst):
            res.violation(f"wire-frames-lost:{label}", f"thread {t}: {len(per_thread[t])}/{len(lst)} frames arrived intact")


class SlowPeerSock:
    """A real socket (one end of a socketpair) seen through the eyes of a peer that, now and then, does not read for
    longer than ANY finite time limit the connection has configured for its writes. What the kernel does then depends on
    what the code under test configured on the socket, so that is read back from the socket itself:
    no limit (blocking socket, no SO_SNDTIMEO) - the write simply takes that long and completes: modelled by a normal
    complete write; a limit (settimeout / SO_SNDTIMEO) - part of the bytes have gone out when the limit strikes, and the
    call fails with the error the kernel/socket module gives. Virtual time: nothing sleeps."""

    def __init__(self, sock, rng, p_slow):
        self._s = sock
        self._rng = rng
        self._p = p_slow
        self.slow_periods = 0
        self.limits_seen = 0

    def __getattr__(self, name):
        return getattr(self._s, name)

    def _limit(self):
        import socket
        import struct

        if self._s.gettimeout() is not None:
            return "timeout"
        try:
            tv = self._s.getsockopt(socket.SOL_SOCKET, socket.SO_SNDTIMEO, 16)
            if any(struct.unpack("ll", tv[:16])):
                return "sndtimeo"
        except OSError:
            pass
        return None

    def sendall(self, data):
        if len(data) > 1 and self._rng.random() < self._p:
            self.slow_periods += 1
            lim = self._limit()
            if lim is not None:
                self.limits_seen += 1
                self._s.sendall(bytes(data[: self._rng.randrange(1, len(data))]))
                if lim == "timeout":
                    raise TimeoutError("timed out")
                raise BlockingIOError(11, "Resource temporarily unavailable")
        return self._s.sendall(data)

    def send(self, data):
        self.sendall(data)
        return len(data)

    # the read direction: now and then nothing arrives for longer than ANY finite limit configured for reads (a quiet
    # connection, a peer pausing in the middle of a frame). Without a limit the read simply takes that long (modelled by
    # a normal read); with one the call fails the way the socket module would fail it, and the bytes arrive afterwards
    def _read_limit(self):
        import socket
        import struct

        if self._s.gettimeout() is not None:
            return "timeout"
        try:
            tv = self._s.getsockopt(socket.SOL_SOCKET, socket.SO_RCVTIMEO, 16)
            if any(struct.unpack("ll", tv[:16])):
                return "rcvtimeo"
        except OSError:
            pass
        return None

    def _quiet(self):
        if self._rng.random() < self._p / 4:
            self.quiet_periods += 1
            lim = self._read_limit()
            if lim is not None:
                self.limits_seen += 1
                if lim == "timeout":
                    raise TimeoutError("timed out")
                raise BlockingIOError(11, "Resource temporarily unavailable")

    quiet_periods = 0

    def recv(self, n):
        self._quiet()
        return self._s.recv(n)

    def recv_into(self, buf, nbytes=0):
        self._quiet()
        return self._s.recv_into(buf, nbytes)


def run_gevent_master(spec):
    """the initiating side itself runs the gevent model: several greenlets send frames larger than the socket buffer at the
    same time on one socket gateway (sendall() yields to the hub in the middle of a frame)"""
    import socket
    import zlib

    res = Result()
    try:
        import gevent
    except ImportError:
        res.info["gevent_master"] = "gevent not installed: shard skipped"
        return res
    import execnet

    rng = core.rng_for("C08g", spec["tier"], spec["seed"], spec["shard"])
    body = "import zlib\nfor x in channel:\n    channel.send((len(x), zlib.crc32(x)))\n"
    for run in range(spec["runs"]):
        group = execnet.Group(execmodel="gevent")
        try:
            group.makegateway("popen//id=m//execmodel=thread")
            gw = group.makegateway("socket//installvia=m")
            gw._io.sock.setsockopt(socket.SOL_SOCKET, socket.SO_SNDBUF, 65536)
            T, per = rng.choice((2, 4, 6)), rng.choice((2, 3))
            size = rng.choice((1 << 20, 4 << 20, 8 << 20))
            chans = [gw.remote_exec(body) for _ in range(T)]
            errs: list = []

            def sender(t):
                try:
                    for k in range(per):
                        data = bytes([65 + t]) * (size + 17 * t + k)
                        chans[t].send(data)
                        got = chans[t].receive(60)
                        if got != (len(data), zlib.crc32(data)):
                            errs.append(f"greenlet {t} item {k}: peer saw {got}, sent {(len(data), zlib.crc32(data))}")
                except BaseException as e:  # noqa
                    errs.append(f"greenlet {t}: {type(e).__name__}: {str(e)[:160]}")

            gs = [gevent.spawn(sender, t) for t in range(T)]
            gevent.joinall(gs, timeout=150)
            res.count("gevent_master_runs")
            res.count("frames_sent_by_concurrent_greenlets", T * per)
            res.case(core.h64("gevent-master", run, T, per, size))
            label = f"gevent initiator, {T} greenlets x {per} items of {size} bytes on one socket gateway"
            if not all(g.ready() for g in gs):
                res.violation("concurrent-send-hung:socket-gevent-master", label)
            elif errs:
                res.violation("concurrent-greenlet-frames-damaged:socket-gevent-master", f"{label}: {errs[0]}")
        except BaseException as e:  # noqa
            res.violation(f"gevent-master-run-raised:{type(e).__name__}", str(e)[-300:])
        finally:
            group.terminate(3.0)
    return res


def run_slowpeer(spec):
    """socket connection, a peer that is slow beyond every configured limit: each message whose write returned normally
    is decoded by the peer, in order, whatever happened to the writes that failed"""
    import socket

    from execnet import gateway_base as gb
    from execnet import gateway_socket as gs

    res = Result()
    rng = core.rng_for("C08s", spec["tier"], spec["seed"], spec["shard"])
    em = gb.get_execmodel("thread")
    import execnet

    for run in range(spec["runs"]):
        if run % 2:
            a, b = socket.socketpair()
            slow = SlowPeerSock(a, rng, rng.choice((0.1, 0.3, 0.6)))
            io = gs.SocketIO(slow, em)
        else:
            # the connection as the initiating side of a socket gateway sets it up (connect to a listening server)
            srv = socket.socket(socket.AF_INET, socket.SOCK_STREAM)
            srv.bind(("127.0.0.1", 0))
            srv.listen(1)
            io = gs.create_io(execnet.XSpec("socket=127.0.0.1:%d" % srv.getsockname()[1]), None, em)
            b, _addr = srv.accept()
            srv.close()
            a = io.sock
            slow = SlowPeerSock(a, rng, rng.choice((0.1, 0.3, 0.6)))
            io.sock = slow
            res.count("slow_peer_runs_on_a_connection_made_by_create_io")
        # the read direction first: the peer writes frames, pausing now and then; all of them are decoded
        rframes = [(gb.Message.CHANNEL_DATA, rng.choice((1, 3, -5)), make_payload(b"<r:%d>" % k, rng.choice((0, 1, 100, 5000, 70000)))) for k in range(rng.choice((1, 3, 6)))]
        wire = b"".join(codec.frame(c, i, p_) for c, i, p_ in rframes)
        wt = threading.Thread(target=lambda: b.sendall(wire), daemon=True)
        wt.start()
        decoded = []
        try:
            for _ in rframes:
                msg = gb.Message.from_io(io)
                decoded.append((msg.msgcode, msg.channelid, msg.data))
        except EOFError as e:
            decoded.append(f"EOFError: {e}")
        except BaseException as e:  # noqa
            decoded.append(f"{type(e).__name__}: {e}")
        wt.join(20)
        res.count("frames_read_over_a_connection_with_quiet_periods", len(rframes))
        res.count("quiet_periods", slow.quiet_periods)
        if decoded != rframes:
            res.violation("frames-lost-after-quiet-period:socket",
                          f"peer wrote {[(c, i, len(p_)) for c, i, p_ in rframes]} with {slow.quiet_periods} quiet periods; decoded {[(d[0], d[1], len(d[2])) if isinstance(d, tuple) else d for d in decoded]}")
            a.close()
            b.close()
            continue
        chunks: list[bytes] = []

        def reader():
            while True:
                d = b.recv(1 << 16)
                if not d:
                    return
                chunks.append(d)

        rt = threading.Thread(target=reader, daemon=True)
        rt.start()
        ok: list = []
        failed = 0
        for seq in range(rng.choice((2, 5, 12))):
            size = rng.choice((0, 1, 100, 5000, 70000, 300000))
            frame = (rng.choice((gb.Message.CHANNEL_DATA, gb.Message.CHANNEL_CLOSE_ERROR, gb.Message.STATUS)), rng.choice((1, 3, 2**31 - 1, -5)),
                     make_payload(b"<0:%d>" % seq, size))
            try:
                gb.Message(*frame).to_io(io)
                ok.append(frame)
            except (OSError, ValueError):
                failed += 1
        try:
            a.shutdown(socket.SHUT_WR)
        except OSError:
            pass
        rt.join(20)
        a.close()
        b.close()
        res.count("slow_peer_runs")
        res.count("slow_peer_periods", slow.slow_periods)
        res.count("slow_peer_periods_with_a_write_limit_configured", slow.limits_seen)
        res.count("frames_written_to_a_slow_peer", len(ok))
        res.case(core.h64("slowpeer", run, len(ok), failed, slow.slow_periods))
        stream = b"".join(chunks)
        label = f"{len(ok)} messages written, {failed} writes failed, {slow.slow_periods} slow periods"
        got = []
        try:
            frames, rest = codec.parse_frames(stream)
            got = [(c, i, p_) for c, i, p_, _s, _e in frames]
        except codec.RefError as e:
            res.violation("frame-torn-on-slow-peer:socket", f"{label}: {e}")
            continue
        if got != ok or rest:
            res.violation("frame-torn-on-slow-peer:socket",
                          f"{label}: the peer decodes {len(got)} frames (+{len(rest)} bytes) - {[(c, i, len(p_)) for c, i, p_ in got][:6]}, written were {[(c, i, len(p_)) for c, i, p_ in ok][:6]}")
    return res


def run_conc(spec):
    import execnet
    from execnet import gateway_base as gb
    from vlib import imodel
    from vlib import pairs

    res = Result()
    rng = core.rng_for("C08b", spec["tier"], spec["seed"], spec["shard"])
    pre = imodel.Preempt(core.REPO_SRC)
    pre.install()
    maxsize = (1 << 20) if spec["tier"] == "quick" else (4 << 20)
    from execnet import gateway_socket as gs

    wl = imodel.function_lines(gb.Popen2IO.write) if spec["transport"] == "pipe" else imodel.function_lines(gs.SocketIO.write)
    wl += imodel.function_lines(gb.BaseGateway._send, gb.Message.to_io)
    sweep_targets = [(f, ln, k) for (f, ln) in sorted(set(wl)) for k in ((1, 1, 2, 5) if spec["tier"] == "quick" else (1, 1, 2, 2, 3, 5, 8, 13))]
    res.info["write_sweep_targets"] = len(sweep_targets)
    try:
        for run in range(max(spec["runs"], len(sweep_targets) + 10 if spec["transport"] != "proxy" else 0)):
            sched = imodel.Sched(rng.getrandbits(32))
            em = imodel.imodel("thread", sched)
            tr = spec["transport"]
            T = rng.choice((2, 3, 4, 8))
            per = rng.choice((3, 6, 12))
            sizes = [rng.choice((0, 1, 100, 5000, 70000, 300000, maxsize)) for _ in range(8)]
            if run < len(sweep_targets) and tr != "proxy" and run % 2 == 0:
                # nothing follows the frames under test: one frame per thread, and no later write can push a stuck one out
                T, per = rng.choice((2, 2, 3)), 1
                sizes = [rng.choice((0, 1, 100, 3000)) for _ in range(8)]  # (smaller than the buffer of a buffered file: they stay in it until flushed)
            if tr == "proxy":
                run_conc_proxy(res, rng, sched, T, per, sizes, pre)
                continue
            peer = pairs.ScriptedPeer(tee=False, em=em, transport=tr)
            gw = peer.gw
            chans = [gw.newchannel() for _ in range(T)]
            sent: dict[int, list] = {t: [] for t in range(T)}
            chunks = []
            slow = rng.random() < 0.7

            def reader():
                while True:
                    try:
                        d = peer.recv(rng.choice((4096, 65536, 1 << 20)))
                    except OSError:
                        break
                    if not d:
                        break
                    chunks.append(d)
                    if slow and rng.random() < 0.05:
                        time.sleep(0.001)

            rt = threading.Thread(target=reader, daemon=True)
            rt.start()
            start = threading.Barrier(T)
            errs = []

            def sender(t):
                sched.set_role(f"s{t}")
                try:
                    start.wait()
                    for seq in range(per):
                        size = sizes[(t + seq) % len(sizes)]
                        tag = b"<%d:%d>" % (t, seq)
                        data = make_payload(tag, size)
                        if (t + seq) % 3 == 0:
                            frame = (gb.Message.CHANNEL_DATA, chans[t].id, data)
                            sent[t].append(frame)
                            gw._send(*frame)
                        else:
                            sent[t].append((gb.Message.CHANNEL_DATA, chans[t].id, codec.encode(data, versioned=False)))
                            chans[t].send(data)
                except BaseException as e:  # noqa
                    errs.append(repr(e))

            if run < len(sweep_targets) and tr != "proxy":
                # one thread held for a while at one line of the low-level write, the others go on
                f_, ln_, k_ = sweep_targets[run]
                pre.restart()
                pre.set_sweep(f_, ln_, k_, stall=0.15 if per == 1 else 0.05)
            else:
                pre.set_noise(rng.getrandbits(32), rng.choice((0.0, 0.02, 0.1)))
            ths = [threading.Thread(target=sender, args=(t,), daemon=True) for t in range(T)]
            for t in ths:
                t.start()
            hung = False
            for t in ths:
                t.join(60)
                hung |= t.is_alive()
            if pre.mode == "sweep" and pre.fired:
                res.count("write_sweep_fired")
            pre.off()
            if hung:
                res.violation(f"concurrent-send-hung:{tr}", f"T={T}")
            if errs:
                res.violation(f"concurrent-send-raised:{tr}", errs[0])
            # every send has returned: all frames are on the wire now, without any further write, flush or close
            if not hung and not errs:
                expect = sum(9 + len(fr[2]) for fl in sent.values() for fr in fl)
                pairs.wait_until(lambda: sum(map(len, chunks)) >= expect, 10.0)
                have = sum(map(len, chunks))
                res.count("on_the_wire_checks")
                if have < expect:
                    res.violation(f"frame-not-on-the-wire-after-send-returned:{tr}",
                                  f"T={T} per={per}: all senders returned, the peer has read {have} of {expect} bytes after 10 s without further writes")
            try:
                peer.raw_a.close_write()
            except Exception:
                pass
            rt.join(30)
            check_stream(res, b"".join(chunks), sent, tr)
            res.count("concurrent_runs")
            res.sig(sched.signature())
            res.case(core.h64("conc", tr, run, T, per, tuple(sizes)))
            if run == 0:
                res.sample({"transport": tr, "threads": T, "frames_per_thread": per, "payload_sizes": sizes})
            peer.shutdown(5)
    finally:
        pre.uninstall()
    return res


def run_conc_proxy(res, rng, sched, T, per, sizes, pre):
    """ProxyIO on top of an in-process pair: what the *sub* end would read is observed at the
    forwarder through the io channel (frames re-framed as channel items)."""
    from execnet import gateway_base as gb
    from execnet import gateway_io
    from vlib import pairs

    pair = pairs.Pair("pipe")
    gw = pair.gw
    # the forwarder side: a remote body that collects every item of the proxy channel
    ch = gw.remote_exec("""
c = channel.receive()
items = []
while 1:
    x = channel.receive()
    if x == b'__end__':
        break
    items.append(x)
channel.send(items)
""")
    pio = gateway_io.ProxyIO(ch, gw.execmodel)
    sent = {t: [] for t in range(T)}
    start = threading.Barrier(T)
    errs = []

    def sender(t):
        try:
            start.wait()
            for seq in range(per):
                size = min(sizes[(t + seq) % len(sizes)], 300000)
                data = make_payload(b"<%d:%d>" % (t, seq), size)
                fr = (gb.Message.CHANNEL_DATA, 2 * t + 1, data)
                sent[t].append(fr)
                gb.Message(*fr).to_io(pio)
        except BaseException as e:  # noqa
            errs.append(repr(e))

    pre.set_noise(rng.getrandbits(32), 0.05)
    ths = [threading.Thread(target=sender, args=(t,), daemon=True) for t in range(T)]
    for t in ths:
        t.start()
    for t in ths:
        t.join(60)
    pre.off()
    if errs:
        res.violation("concurrent-send-raised:proxy", errs[0])
    ch.send(b"__end__")
    try:
        items = ch.receive(30)
    except BaseException as e:
        res.violation("proxy-forwarder-lost", repr(e))
        items = []
    # each proxied frame must be exactly one channel item
    for it in items:
        fr, rest = codec.parse_frames(it)
        if len(fr) != 1 or rest:
            res.violation("proxy-item-is-not-one-frame", f"item of {len(it)} bytes holds {len(fr)} frames + {len(rest)} stray bytes")
            break
    check_stream(res, b"".join(items), sent, "proxy")
    res.count("concurrent_runs")
    res.case(core.h64("conc-proxy", T, per, tuple(sizes)))
    pair.close()


# ---------------------------------------------------------------------------
# (b) real workers, both directions

REMOTE_SINK = r"""
import threading, hashlib, os
spec = channel.receive()
# somebody on this side reads standard input while frames keep arriving (for remote code it is the null device, not the wire)
def stdin_reader():
    for _ in range(20):
        os.read(0, 65536)
    os.system("head -c 65536 > /dev/null")
threading.Thread(target=stdin_reader, daemon=True).start()
T, per, sizes = spec
# report what arrives from the initiator
def summary(item):
    return (item[:16], len(item), hashlib.sha1(item).hexdigest())
# concurrently send our own big items on sub-channels (worker -> initiator direction)
subs = [channel.gateway.newchannel() for _ in range(T)]
channel.send(subs)
def sender(t):
    for seq in range(per):
        size = sizes[(t + seq) % len(sizes)]
        tag = b"<w%d:%d>" % (t, seq)
        reps = size // len(tag) + 1
        subs[t].send((tag * reps)[:size] if size else b"")
    subs[t].close()
ths = [threading.Thread(target=sender, args=(t,)) for t in range(T)]
for t in ths: t.start()
got = []
while 1:
    item = channel.receive()
    if item is None:
        break
    got.append(summary(item))
for t in ths: t.join()
channel.send(got)
"""


def run_real(spec):
    import hashlib

    import execnet

    res = Result()
    rng = core.rng_for("C08r", spec["tier"], spec["seed"], spec["spec"])
    maxsize = (1 << 20) if spec["tier"] == "quick" else (4 << 20)
    for run in range(spec["runs"]):
        group = execnet.Group()
        try:
            if spec["spec"] == "popen":
                gw = group.makegateway("popen")
            elif spec["spec"] == "socket":
                group.makegateway("popen//id=master")
                gw = group.makegateway("socket//installvia=master")
            else:
                group.makegateway("popen//id=master")
                gw = group.makegateway("popen//via=master")
            T = rng.choice((2, 3, 4))
            per = rng.choice((3, 6))
            sizes = [rng.choice((0, 1, 100, 5000, 70000, 300000, maxsize)) for _ in range(6)]
            ch = gw.remote_exec(REMOTE_SINK)
            ch.send((T, per, sizes))
            subs = ch.receive(30)
            datach = [gw.newchannel() for _ in range(T)]
            sent = {t: [] for t in range(T)}
            recv = {t: [] for t in range(T)}
            errs = []
            lock = threading.Lock()

            def sender(t):
                try:
                    for seq in range(per):
                        size = sizes[(t + seq) % len(sizes)]
                        data = make_payload(b"<i%d:%d>" % (t, seq), size)
                        sent[t].append(data)
                        with lock:
                            pass
                        ch.send(data)
                except BaseException as e:  # noqa
                    errs.append("send: " + repr(e))

            def receiver(t):
                try:
                    while True:
                        recv[t].append(subs[t].receive(60))
                except EOFError:
                    pass
                except BaseException as e:  # noqa
                    errs.append("receive: " + repr(e))

            ths = [threading.Thread(target=sender, args=(t,), daemon=True) for t in range(T)]
            ths += [threading.Thread(target=receiver, args=(t,), daemon=True) for t in range(T)]
            for t in ths:
                t.start()
            for t in ths:
                t.join(120)
            if any(t.is_alive() for t in ths):
                res.violation(f"real-concurrent-transfer-hung:{spec['spec']}", f"T={T} per={per} sizes={sizes}")
                continue
            try:
                ch.send(None)
                got = ch.receive(60)
                ch.waitclose(30)
            except BaseException as e:
                res.violation(f"worker-receiver-died:{spec['spec']}", f"{type(e).__name__}: {str(e)[-300:]} errs={errs[:2]}")
                continue
            if errs:
                res.violation(f"real-concurrent-transfer-raised:{spec['spec']}", errs[0])
            # initiator -> worker: multiset equal, per-thread order kept
            want_all = sorted((d[:16], len(d), hashlib.sha1(d).hexdigest()) for t in sent for d in sent[t])
            if sorted(tuple(x) for x in got) != want_all:
                res.violation(f"worker-decoded-different-items:{spec['spec']}", f"{len(got)} items vs {len(want_all)} sent")
            for t in range(T):
                # items shorter than their tag cannot be attributed to a thread: left to the multiset check
                mine = [tuple(x) for x in got if x[1] >= 8 and bytes(x[0]).startswith(b"<i%d:" % t)]
                wantt = [(d[:16], len(d), hashlib.sha1(d).hexdigest()) for d in sent[t] if len(d) >= 8]
                if mine != wantt:
                    res.violation(f"per-thread-order-broken:{spec['spec']}", f"thread {t}")
            # worker -> initiator
            for t in range(T):
                want = [make_payload(b"<w%d:%d>" % (t, seq), sizes[(t + seq) % len(sizes)]) for seq in range(per)]
                if recv[t] != want:
                    res.violation(f"initiator-decoded-different-items:{spec['spec']}", f"sub-channel {t}: {len(recv[t])}/{per} items, sizes {[len(x) for x in recv[t]]}")
            res.count("concurrent_runs")
            res.count("concurrent_frames", 2 * T * per)
            res.case(core.h64("real", spec["spec"], run, T, per, tuple(sizes)))
            if run == 0:
                res.sample({"real": spec["spec"], "threads": T, "per": per, "sizes": sizes})
            if not gw.hasreceiver():
                res.violation(f"initiator-receiver-died:{spec['spec']}", "")
        except BaseException as e:
            res.violation(f"real-run-raised:{spec['spec']}:{type(e).__name__}", str(e)[-400:])
        finally:
            group.terminate(3.0)
    return res
