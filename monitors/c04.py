"""C04 - connection loss at any byte never hangs or corrupts the survivor."""

from __future__ import annotations

import os
import signal
import socket
import struct
import subprocess
import sys
import threading
import time

from ref import codec
from vlib import core
from vlib import procs
from vlib.core import Result
from vlib.core import short

ID = "C04"
LEVEL = "fault_enumeration"
RULE = ("fault = the peer-to-survivor byte stream is cut after k bytes. Generated frame lists (DATA on 1-4 channels, CLOSE, CLOSE_ERROR, "
        "LAST_MESSAGE; payloads 0 B-100 KB) are encoded with the reference frame writer into a stream S; for EVERY k in 0..|S| (exhaustive "
        "for streams up to 2 KB quick / 8 KB thorough, all offsets within +-10 of a frame boundary plus a sample beyond) a real Gateway "
        "(pipe or TCP, 3 close variants) receives S[:k] in a generated chunking; per channel 1-3 blocked receivers, 0-2 waitclose callers or "
        "a callback with endmarker, attached before or after the bytes. Plus worker-side survivors (own process, scripted initiator) and real "
        "SIGKILLs of popen/socket/via workers, and real via gateways whose initiator<->forwarder connection ends after k complete frames "
        "(every k while the proxied worker sends; queue and callback channels). distinct = distinct (stream, k, variant) cases")
ASSUMPTIONS = [
    "a waiter that has not returned 8 s after the cut counts as blocked forever",
    "waitclose may either return or raise the documented EOFError for a channel the peer had closed properly before the cut",
]
MINIMUM = {"cuts": 3000, "waiters_checked": 6000, "kills": 4, "worker_survivors": 4}
SHARD_TIMEOUT = {"quick": 400, "thorough": 2400}
M = codec.MSG


def shards(tier, seed):
    out = []
    n = 13 if tier == "quick" else 26
    for i in range(n):
        out.append({"kind": "cuts", "streams": 3 if tier == "quick" else 40, "transport": ("pipe", "tcp")[i % 2]})
    out.append({"kind": "worker", "runs": 10 if tier == "quick" else 150})
    out.append({"kind": "late_new", "ks": [1, 2, 3] if tier == "quick" else [1, 2, 3, 5, 8, 13], "noise_runs": 30 if tier == "quick" else 600})
    for part in range(2 if tier == "quick" else 4):
        out.append({"kind": "finish_sweep", "ks": [1, 2, 3] if tier == "quick" else [1, 2, 3, 4, 6], "part": part, "parts": 2 if tier == "quick" else 4,
                    "noise_runs": 20 if tier == "quick" else 400})
    for sp in ("popen", "socket", "via"):
        out.append({"kind": "kill", "spec": sp, "runs": 5 if tier == "quick" else 60})
    return out


def run_shard(spec):
    return {"cuts": run_cuts, "worker": run_worker, "kill": run_kill, "late_new": run_late_new, "finish_sweep": run_finish_sweep}[spec["kind"]](spec)


# ---------------------------------------------------------------------------


def gen_stream(rng, maxbytes):
    nchan = rng.choice((1, 2, 3, 4))
    cids = [1 + 2 * i for i in range(nchan)]
    frames = []
    seq = {c: 0 for c in cids}
    size = 0
    closed = set()
    for _ in range(rng.choice((1, 3, 6, 12, 25))):
        c = rng.choice(cids)
        k = rng.random()
        if k < 0.75:
            pad = rng.choice((0, 0, 1, 5, 30, 200)) if size < maxbytes else 0
            if rng.random() < 0.02:
                pad = rng.choice((5000, 70000, 100000))
            item = (c, seq[c], b"x" * pad)
            seq[c] += 1
            fr = (M["CHANNEL_DATA"], c, codec.encode(item, versioned=False))
        elif k < 0.85:
            fr = (M["CHANNEL_CLOSE"], c, b"")
        elif k < 0.93:
            fr = (M["CHANNEL_CLOSE_ERROR"], c, codec.encode(f"remote failure on {c}", versioned=False))
        else:
            fr = (M["CHANNEL_LAST_MESSAGE"], c, b"")
        frames.append(fr)
        size += 9 + len(fr[2])
    modes = {}
    for c in cids:
        modes[c] = {"mode": rng.choice(("receive", "receive", "callback", "callback_dropped", "callback_backlog", "callback_raising")), "receivers": rng.choice((1, 2, 3)),
                    "waitclosers": rng.choice((0, 1, 2)), "attach": rng.choice(("before", "after"))}
    return {"cids": cids, "frames": frames, "modes": modes}


def expected(stream_frames, k):
    """what the survivor must observe, computed from S[:k] alone"""
    items: dict[int, list] = {}
    error: dict[int, bool] = {}
    closed_by_frame: dict[int, str] = {}
    pos = 0
    for code, cid, payload in stream_frames:
        end = pos + 9 + len(payload)
        if end > k:
            break
        pos = end
        if cid in closed_by_frame:
            continue  # the channel is gone on the survivor: later frames for it are dropped
        if code == M["CHANNEL_DATA"]:
            items.setdefault(cid, []).append(codec.decode(payload, versioned=False))
        elif code == M["CHANNEL_CLOSE"]:
            closed_by_frame[cid] = "close"
        elif code == M["CHANNEL_CLOSE_ERROR"]:
            closed_by_frame[cid] = "error"
            error[cid] = True
        elif code == M["CHANNEL_LAST_MESSAGE"]:
            closed_by_frame[cid] = "last"
    return items, error, closed_by_frame


def in_own_thread(op, timeout=10.0):
    """-> 'accepted' | 'OSError' | '<Type>: text' | 'blocked'"""
    out = []

    def call():
        try:
            op()
            out.append("accepted")
        except OSError:
            out.append("OSError")
        except BaseException as e:  # noqa
            out.append(f"{type(e).__name__}: {e}")

    t = threading.Thread(target=call, daemon=True)
    t.start()
    t.join(timeout)
    return out[0] if out else "blocked"


def in_this_thread(op):
    try:
        op()
        return "accepted"
    except OSError:
        return "OSError"
    except BaseException as e:  # noqa
        return f"{type(e).__name__}: {e}"


def run_one_cut(res, rng, prog, S, k, transport, variant, label, user_closes=None, hammer=False):
    from execnet.gateway_base import RemoteError
    from vlib import pairs

    sp = pairs.ScriptedPeer(tee=False, transport=transport)
    gw = sp.gw
    chans = {c: gw.newchannel() for c in prog["cids"]}
    if [ch.id for ch in chans.values()] != prog["cids"]:
        res.inconclusive.append("unexpected channel ids")
        return
    logs = {c: {"recv": [], "wait": [], "cb": []} for c in prog["cids"]}
    threads = []
    END = rng.choice((("__end__",), None, 0, ""))  # any object may serve as endmarker, None and falsy ones included

    def receiver(c, ix):
        ch = chans[c]
        r = {"items": [], "terminal": None, "repeat": None}
        logs[c]["recv"].append(r)
        try:
            while True:
                r["items"].append(ch.receive(8))
        except EOFError:
            r["terminal"] = "EOFError"
        except RemoteError as e:
            r["terminal"] = "RemoteError"
            r["text"] = str(e)
        except BaseException as e:  # noqa
            r["terminal"] = type(e).__name__
            return
        try:
            ch.receive(8)
            r["repeat"] = "item"
        except EOFError:
            r["repeat"] = "EOFError"
        except RemoteError:
            r["repeat"] = "RemoteError"
        except BaseException as e:  # noqa
            r["repeat"] = type(e).__name__

    def waitcloser(c, ix):
        try:
            chans[c].waitclose(8)
            logs[c]["wait"].append("returned")
        except EOFError:
            logs[c]["wait"].append("EOFError")
        except RemoteError:
            logs[c]["wait"].append("RemoteError")
        except BaseException as e:  # noqa
            logs[c]["wait"].append(type(e).__name__)

    in_backlog = threading.Event()

    def attach(c):
        md = prog["modes"][c]
        if md["mode"] == "callback_backlog" and c not in backlog:
            chans[c].setcallback(logs[c]["cb"].append, endmarker=END)
        elif md["mode"] == "callback_backlog":
            # the callback is slow on its first item: the connection loss is processed while setcallback still hands over the backlog
            def slow(item, log=logs[c]["cb"]):
                first = not log
                log.append(item)
                if first:
                    in_backlog.set()
                    time.sleep(0.05)

            t = threading.Thread(target=lambda: chans[c].setcallback(slow, endmarker=END), daemon=True)
            threads.append(t)
            t.start()
            res.count("cuts_during_slow_backlog_handover")
            return
        elif md["mode"] == "callback":
            chans[c].setcallback(logs[c]["cb"].append, endmarker=END)
        elif md["mode"] == "callback_raising" and c not in raising:
            chans[c].setcallback(logs[c]["cb"].append, endmarker=END)
        elif md["mode"] == "callback_raising":
            # a callback that fails on its first item, slowly enough for the connection to be gone by then: the failure
            # can no longer be reported to the peer, which must not cost the other channels their complete items
            def failing(item, log=logs[c]["cb"]):
                log.append(item)
                if item != END and len(log) == 1:
                    time.sleep(0.03)
                    raise ValueError("callback failure after the peer went away")

            chans[c].setcallback(failing, endmarker=END)
            res.count("cuts_with_failing_callback")
        elif md["mode"] == "callback_dropped":
            # the common gw.remote_exec(..).setcallback(..) idiom: nobody keeps the channel object
            chans[c].setcallback(logs[c]["cb"].append, endmarker=END)
            chans[c] = None
            import gc

            gc.collect()
        else:
            for i in range(md["receivers"]):
                t = threading.Thread(target=receiver, args=(c, i), daemon=True)
                threads.append(t)
                t.start()
        for i in range(md["waitclosers"] if md["mode"] not in ("callback_dropped",) else 0):
            t = threading.Thread(target=waitcloser, args=(c, i), daemon=True)
            threads.append(t)
            t.start()

    # (costs ~0.1 s per cut: done on every 16th cut point only, and only when a complete item precedes the cut;
    #  on the other cuts such a channel is an ordinary callback channel)
    pre_items, _e, _c = expected(prog["frames"], k)
    backlog = [c for c in prog["cids"] if prog["modes"][c]["mode"] == "callback_backlog" and k % 16 == 0 and pre_items.get(c)]
    raising = [c for c in prog["cids"] if prog["modes"][c]["mode"] == "callback_raising" and k % 32 == 8 and pre_items.get(c)
               and prog["modes"][c]["attach"] == "before"]
    for c in prog["cids"]:
        if prog["modes"][c]["attach"] == "before" and c not in backlog:
            attach(c)
    # play the peer: S[:k] in a generated chunking, then the cut
    data = S[:k]
    p = 0
    while p < len(data):
        n = rng.choice((1, 2, 9, 64, 4096, 1 << 20))
        sp.feed(data[p:p + n])
        p += n
    if backlog:
        # let the bytes be queued, start the slow hand-over, and cut the connection in the middle of it
        time.sleep(0.01)
        for c in backlog:
            attach(c)
        in_backlog.wait(0.2)
    if hammer:
        # a user thread keeps sending while the connection goes down: accepted, or OSError - nothing else ever
        hch = gw.newchannel()

        def hammerer():
            t_end = time.monotonic() + 3.0
            try:
                while time.monotonic() < t_end:
                    hch.send(b"h")
            except OSError:
                pass
            except BaseException as e:  # noqa
                res.violation(f"send-during-connection-loss-raised-{type(e).__name__}:{transport}", f"{label}: {e!r}")

        ht = threading.Thread(target=hammerer, daemon=True)
        threads.append(ht)
        ht.start()
    m_uc = f"user-close-during-connection-loss-raised:{transport}"
    if user_closes is not None and chans.get(user_closes) is not None:
        # a user thread closes one of its channels just while the connection goes down (it cannot know): its close
        # message may still get out, the un-registration then runs next to the receiver thread's own sweep
        uc = threading.Thread(target=lambda: _quiet_close(chans[user_closes], res, m_uc, label), daemon=True)
        threads.append(uc)
        uc.start()
        if rng.random() < 0.5:
            time.sleep(0.0003)
    if transport == "tcp":
        if variant == "reset":
            sp.sock.setsockopt(socket.SOL_SOCKET, socket.SO_LINGER, struct.pack("ii", 1, 0))
            sp.sock.close()
        elif variant == "write_only":
            sp.sock.shutdown(socket.SHUT_WR)
        else:
            # closing a TCP socket that still holds unread bytes (e.g. the LAST_MESSAGE frame of a dropped channel)
            # would turn the orderly close into a reset: read them first
            sp.sock.setblocking(False)
            try:
                while sp.sock.recv(65536):
                    pass
            except (BlockingIOError, OSError):
                pass
            sp.sock.close()
    else:
        if variant == "write_only":
            sp.peer_w.close()
        else:
            sp.close_peer()
    for c in prog["cids"]:
        if prog["modes"][c]["attach"] == "after" and c not in backlog:
            attach(c)
    t0 = time.monotonic()
    blocked = False
    for t in threads:
        t.join(max(0.05, 10 - (time.monotonic() - t0)))
        blocked |= t.is_alive()
    gw.join(5)
    want_items, want_err, closed_by = expected(prog["frames"], k)
    if user_closes is not None:
        closed_by = dict(closed_by)
        closed_by.setdefault(user_closes, "local close")
    m = lambda name: f"{name}:{transport}"
    # A TCP reset makes the kernel discard bytes it had received but not yet handed to the survivor:
    # what "had arrived" is then some shorter prefix S[:k'], k' <= k.  Any such prefix is accepted.
    # The same can happen after an orderly close of both directions when the survivor still writes something (a close
    # message for a dropped channel, an error report): the dead peer's kernel answers with a reset.  Strict delivery of
    # every complete frame is demanded on pipes and on TCP connections whose peer only shut down its sending side.
    lossy = transport == "tcp" and variant in ("reset", "both")
    if blocked:
        res.violation(m("waiter-blocked-after-connection-loss"), f"{label}: logs={short(logs, 400)}")
    for c in prog["cids"]:
        md = prog["modes"][c]
        wi = want_items.get(c, [])
        lg = logs[c]
        if c in raising:
            from vlib import pairs as _p

            _p.wait_until(lambda: END in lg["cb"], 15)
            got = list(lg["cb"])
            res.count("waiters_checked")
            if got != [wi[0], END] and not (lossy and got == [END]):
                res.violation(m("failing-callback-transcript-wrong"), f"{label}: channel {c}: got {short(got)} want first item + endmarker")
            for w in lg["wait"]:
                if w not in ("returned", "EOFError", "RemoteError"):
                    res.violation(m(f"waitclose-ended-with-{w}"), f"{label}: channel {c}")
            continue
        if md["mode"] in ("callback", "callback_dropped", "callback_backlog", "callback_raising"):
            from vlib import pairs as _p

            _p.wait_until(lambda: END in lg["cb"], 15)
            got = list(lg["cb"])
            res.count("waiters_checked")
            # (the order between a *local* close's endmarker and an item the receiver thread is just handing over is not
            #  part of the property: for the channel the user closed only "exactly once" is demanded)
            if got.count(END) != 1 or (got[-1:] != [END] and c != user_closes):
                res.violation(m("callback-endmarker-after-connection-loss"), f"{label}: channel {c}: endmarker x{got.count(END)}, last={short(got[-1:])}")
            gi = [g for g in got if not (g is END or (g == END and type(g) is type(END)))]
            # (a channel its user closed meanwhile legitimately drops what arrives after that close)
            if (gi != wi[:len(gi)]) if (lossy or c == user_closes) else (gi != wi):
                res.violation(m("callback-items-differ-from-complete-frames"), f"{label}: channel {c}: got {len(got)} want {len(wi)}")
        else:
            allitems = []
            nremote = lg["wait"].count("RemoteError")
            for r in lg["recv"]:
                res.count("waiters_checked")
                seqs = [it[1] for it in r["items"] if isinstance(it, tuple) and len(it) == 3]
                if len(seqs) != len(r["items"]) or seqs != sorted(seqs):
                    res.violation(m("receiver-got-corrupt-or-unordered-items"), f"{label}: channel {c}: {short(r['items'][:3])}")
                allitems += r["items"]
                nremote += (r["terminal"] == "RemoteError") + (r["repeat"] == "RemoteError")
                if r["terminal"] not in ("EOFError", "RemoteError"):
                    if r["terminal"] is not None or not blocked:
                        res.violation(m(f"receive-ended-with-{r['terminal']}"), f"{label}: channel {c}")
                elif r["repeat"] not in ("EOFError", "RemoteError"):
                    res.violation(m(f"later-receive-{r['repeat']}"), f"{label}: channel {c}")
            srt = sorted(allitems, key=lambda it: it[1] if isinstance(it, tuple) and len(it) == 3 else -1)
            if ((srt != wi[:len(srt)]) if lossy else (srt != wi)) and not blocked:
                res.violation(m("items-differ-from-complete-frames"), f"{label}: channel {c}: got {len(allitems)} want {len(wi)} "
                              f"(first got {short(allitems[:2])})")
            consumers = len(lg["recv"]) + len(lg["wait"])
            if want_err.get(c) and nremote != 1 and consumers and not (lossy and nremote == 0):
                res.violation(m("remoteerror-count-after-connection-loss"), f"{label}: channel {c}: {nremote}")
            if not want_err.get(c) and nremote:
                res.violation(m("unexpected-remoteerror"), f"{label}: channel {c}")
        for w in lg["wait"]:
            res.count("waiters_checked")
            if w == "returned" and c not in closed_by:  # (with a reset, fewer channels were closed by a frame: still not silent)
                res.violation(m("waitclose-silent-after-premature-connection-loss"), f"{label}: channel {c}")
            if w not in ("returned", "EOFError", "RemoteError"):
                res.violation(m(f"waitclose-ended-with-{w}"), f"{label}: channel {c}")
    # the gateway afterwards
    if gw.hasreceiver():
        res.violation(m("gateway-still-reports-receiving"), label)
    # "... or later": whoever asks a channel of the dead gateway now is told about the loss - also for a channel the peer had
    # closed in an orderly way before it died, and also after the survivor's own clean-up close()
    if user_closes is None:
        for c, ch in chans.items():
            if ch is None:
                continue
            closed_first = rng.random() < 0.5
            if closed_first:
                try:
                    ch.close()
                except OSError:
                    pass
            try:
                ch.waitclose(3)
                out = "accepted"
            except (EOFError, RemoteError) as e:
                out = type(e).__name__
            except ch.TimeoutError:
                out = "blocked"
            except BaseException as e:  # noqa
                out = f"{type(e).__name__}: {e}"
            res.count("later_waitclose_calls")
            if out == "accepted":
                res.violation(m("later-waitclose-silent-after-connection-loss"),
                              f"{label}: channel {c} ({'closed by a frame before the cut' if c in closed_by else 'open at the cut'}"
                              f"{', closed by the survivor afterwards' if closed_first else ''}): waitclose() returned normally")
            elif out == "blocked" or out.split(":")[0] not in ("EOFError", "RemoteError"):
                res.violation(m("later-waitclose-ended-with-" + out.split(":")[0]), f"{label}: channel {c}: {out}")
    for name, op in (("newchannel", gw.newchannel), ("remote_exec", lambda: gw.remote_exec("pass")),
                     ("send", lambda: next(ch for ch in chans.values() if ch is not None).send(1)),
                     ("gateway_send", lambda: gw._send(M["CHANNEL_DATA"], 1, b""))):
        if name == "send" and all(ch is None for ch in chans.values()):
            continue
        # (every fourth cut each call comes from a thread of its own: what one failed call leaves behind must not stop the
        # next caller)
        out = in_own_thread(op) if k % 4 == 0 else in_this_thread(op)
        if out == "blocked":
            res.violation(m(f"{name}-after-loss-blocks"), f"{label}: no answer within 10 s")
        elif out == "accepted":
            res.violation(m(f"{name}-after-loss-accepted"), label)
        elif out != "OSError":
            res.violation(m(f"{name}-after-loss-raised-{out.split(':')[0]}"), f"{label}: {out}")
    sp.shutdown(2)
    res.count("cuts")


def run_cuts(spec):
    res = Result()
    rng = core.rng_for("C04", spec["tier"], spec["seed"], spec["shard"])
    exh = 2048 if spec["tier"] == "quick" else 8192
    for si in range(spec["streams"]):
        prog = gen_stream(rng, 1200 if spec["tier"] == "quick" else 6000)
        if si % 3 == 0:
            # every shard sees failing callbacks next to other channels
            while len(prog["cids"]) < 2 or len(prog["frames"]) < 6:
                prog = gen_stream(rng, 1200 if spec["tier"] == "quick" else 6000)
            prog["modes"][prog["cids"][0]].update(mode="callback_raising", attach="before")
        S = b"".join(codec.frame(*f) for f in prog["frames"])
        if len(S) <= exh:
            cuts = list(range(len(S) + 1))
            res.count("streams_exhaustive")
        else:
            b = 0
            cs = set()
            for f in prog["frames"]:
                for d in range(-10, 11):
                    if 0 <= b + d <= len(S):
                        cs.add(b + d)
                b += 9 + len(f[2])
            cs |= {len(S), max(0, len(S) - 1)} | {rng.randrange(len(S)) for _ in range(100)}
            cuts = sorted(cs)
            res.count("streams_sampled")
        res.count("stream_bytes", len(S))
        for k in cuts:
            if res.enough():
                break
            variant = rng.choice(("both", "both", "write_only", "reset"))
            if k % 32 == 8 and any(md["mode"] == "callback_raising" for md in prog["modes"].values()):
                variant = "both"  # the failure can then not be reported to the peer
            label = f"stream#{si} len={len(S)} cut={k} variant={variant} frames={short([(c, i, len(p)) for c, i, p in prog['frames']], 200)} modes={prog['modes']}"
            try:
                run_one_cut(res, rng, prog, S, k, spec["transport"], variant, label)
            except BaseException as e:
                res.violation(f"cut-run-raised:{type(e).__name__}", f"{label}: {e}")
            res.case(core.h64("cut", spec["shard"], si, k, variant))
        if si == 0:
            res.sample({"frames": [(codec.MSGNAME[c], i, len(p)) for c, i, p in prog["frames"]], "stream_len": len(S), "cuts": len(cuts)})
    return res


# ---------------------------------------------------------------------------
# channels created while the connection is being lost: refused with OSError, or closed like all others


def run_late_new(spec):
    from execnet import gateway_base as gb
    from vlib import imodel
    from vlib import pairs

    res = Result()
    rng = core.rng_for("C04n", spec["tier"], spec["seed"])
    pre = imodel.Preempt(core.REPO_SRC)
    pre.install()
    try:
        lines = imodel.function_lines(gb.ChannelFactory.new, gb.ChannelFactory._finished_receiving, gb.Channel.__init__)
        todo = [(ln, k) for ln in lines for k in spec["ks"]] + [(None, i) for i in range(spec["noise_runs"])]
        for ln, k in todo:
            if res.enough(6):
                break
            sp = pairs.ScriptedPeer(tee=False, transport=rng.choice(("pipe", "tcp")))
            gw = sp.gw
            created, errs, refused = [], [], [0]
            stop = threading.Event()

            def creator():
                while not stop.is_set() and len(created) < 300:
                    try:
                        created.append(gw.newchannel())
                    except OSError:
                        refused[0] += 1
                        time.sleep(0)
                    except BaseException as e:  # noqa
                        errs.append(repr(e))
                        return

            ths = [threading.Thread(target=creator, daemon=True) for _ in range(2)]
            if ln is None:
                pre.set_noise(rng.getrandbits(32), rng.choice((0.05, 0.2)))
                label = f"late newchannel, line noise run {k}"
            else:
                pre.restart()
                pre.set_sweep(ln[0], ln[1], k, stall=0.03)
                label = f"late newchannel, stall at line {ln[1]} hit {k}"
            for t in ths:
                t.start()
            time.sleep(rng.choice((0.0, 0.0005, 0.002)))
            sp.close_peer()
            gw.join(5)
            time.sleep(0.05)
            stop.set()
            for t in ths:
                t.join(5)
            pre.off()
            res.count("late_new_runs")
            res.count("late_channels_created", len(created))
            res.count("late_creations_refused", refused[0])
            res.case(core.h64("late_new", ln, k))
            if errs:
                res.violation("newchannel-during-loss-raised", f"{label}: {errs[0]}")
            for ch in created:
                res.count("waiters_checked")
                try:
                    ch.receive(3)
                    res.violation("late-created-channel-delivered-item", label)
                    break
                except EOFError:
                    pass
                except BaseException as e:
                    res.violation("late-created-channel-left-open-on-dead-gateway", f"{label}: receive -> {type(e).__name__} (channel id {ch.id}, "
                                  f"{len(created)} created, {refused[0]} refused)")
                    break
            sp.shutdown(1)
        res.sample({"late_new_runs": len(todo), "lines": len(lines)})
    finally:
        pre.uninstall()
    return res


def _quiet_close(ch, res, mech, label):
    try:
        ch.close()
    except OSError:
        pass
    except BaseException as e:  # noqa
        res.violation(mech + ":" + type(e).__name__, f"{label}: {e!r}")


def run_finish_sweep(spec):
    """the end of receiving itself, at line granularity: one pre-emption (or line noise) inside the code that wakes the
    waiters, closes the channels and records why the connection ended, while several receivers and waitclose callers of
    several channels are blocked - whoever is woken first must already find the complete picture"""
    from execnet import gateway_base as gb
    from vlib import imodel

    res = Result()
    rng = core.rng_for("C04f", spec["tier"], spec["seed"], spec["part"])
    pre = imodel.Preempt(core.REPO_SRC)
    pre.install()
    try:
        lines = imodel.function_lines(gb.BaseGateway._thread_receiver, gb.ChannelFactory._finished_receiving, gb.ChannelFactory._local_close,
                                      gb.ChannelFactory._no_longer_opened, gb.Channel.waitclose, gb.Channel.receive, gb.Channel._getremoteerror)
        nlo_lines = set(imodel.function_lines(gb.ChannelFactory._no_longer_opened))
        io_lines = set(imodel.function_lines(gb.Popen2IO.write, gb.Popen2IO.close_write, gb.BaseGateway._send, gb.Message.to_io))
        lines = lines + sorted(io_lines - set(lines))
        todo = [(ln, k) for ln in lines for k in spec["ks"]]
        todo = [t for i, t in enumerate(todo) if i % spec["parts"] == spec["part"]] + [(None, i) for i in range(spec["noise_runs"])]
        for ln, k in todo:
            if res.enough(6):
                break
            prog = gen_stream(rng, 400)
            while len(prog["cids"]) < 3:
                prog = gen_stream(rng, 400)
            for c in prog["cids"]:
                prog["modes"][c].update(mode=rng.choice(("receive", "receive", "callback")), attach="before", receivers=rng.choice((1, 2)),
                                        waitclosers=rng.choice((1, 2)))
            S = b"".join(codec.frame(*f) for f in prog["frames"])
            cut = rng.randrange(len(S) + 1)
            if ln is None:
                pre.set_noise(rng.getrandbits(32), rng.choice((0.05, 0.2)))
                label = f"end of receiving under line noise run {k}: cut={cut}/{len(S)}"
            else:
                pre.restart()
                pre.set_sweep(ln[0], ln[1], k, stall=0.05)
                label = f"end of receiving, stall at line {ln[1]} hit {k}: cut={cut}/{len(S)} frames={short([(c, i, len(p)) for c, i, p in prog['frames']], 160)}"
            uc = rng.choice([None] + [c for c in prog["cids"] if prog["modes"][c]["mode"] == "callback"])
            if ln is not None and ln in nlo_lines:
                # stalls inside the un-registration itself: exactly one channel has a callback and the user closes that one,
                # so that both threads are un-registering the same entry
                for c in prog["cids"]:
                    prog["modes"][c]["mode"] = "receive"
                uc = prog["cids"][k % len(prog["cids"])]
                prog["modes"][uc]["mode"] = "callback"
            try:
                run_one_cut(res, rng, prog, S, cut, "pipe", "both", label + (f" user closes channel {uc} meanwhile" if uc else ""), user_closes=uc,
                            hammer=(ln is None or ln in io_lines))
            except BaseException as e:
                res.violation(f"cut-run-raised:{type(e).__name__}", f"{label}: {e}")
            pre.off()
            if uc:
                res.count("cuts_with_concurrent_user_close")
            res.count("finish_sweep_runs")
            if ln is not None and pre.fired:
                res.count("sweep_fired")
            res.case(core.h64("finish_sweep", ln, k, cut))
        res.sample({"finish_sweep_runs": len(todo), "lines": len(lines)})
    finally:
        pre.uninstall()
    return res


# ---------------------------------------------------------------------------
# worker-side survivor: own process, the harness plays a cut initiator


def run_worker(spec):
    import inspect

    from execnet import gateway_base as gb
    from execnet.gateway_io import popen_bootstrapline

    res = Result()
    rng = core.rng_for("C04w", spec["tier"], spec["seed"])
    boot_src = inspect.getsource(gb)
    boot_tail = "\n".join(["", "execmodel = get_execmodel(%r)", "io = init_popen_io(execmodel)",
                           "io.write('1'.encode('ascii'))", "serve(io, id='cutworker')"])

    def one(i, results):
        model = ("thread", "main_thread_only")[i % 2]
        p = subprocess.Popen([core.PY, "-u", "-c", popen_bootstrapline], stdin=subprocess.PIPE, stdout=subprocess.PIPE,
                             stderr=subprocess.PIPE, env=core.child_env())
        try:
            p.stdin.write((repr(boot_src + boot_tail % model) + "\n").encode())
            p.stdin.flush()
            if p.stdout.read(1) != b"1":
                results.append((i, "handshake failed", "", 0))
                return
            frames = []
            body = rng.choice(["channel.send(1)", "channel.receive()", "import time\ntime.sleep(0.2)\nchannel.send(2)",
                               "for i in range(100): channel.send(i)", "x = channel.receive()\nchannel.send(x)"])
            frames.append(codec.frame(M["CHANNEL_EXEC"], 1, codec.encode((body, None, None, {}), versioned=False)))
            frames.append(codec.frame(M["CHANNEL_DATA"], 1, codec.encode("item", versioned=False)))
            frames.append(codec.frame(M["RECONFIGURE"], 0, codec.encode((True, False), versioned=False)))
            frames.append(codec.frame(M["STATUS"], 3, b""))
            frames.append(codec.frame(M["CHANNEL_CLOSE"], 1, b""))
            S = b"".join(frames)
            k = rng.randrange(len(S) + 1)
            p.stdin.write(S[:k])
            p.stdin.flush()
            t0 = time.monotonic()
            p.stdin.close()
            try:
                p.wait(25)
                dt = time.monotonic() - t0
                err = p.stderr.read().decode("utf-8", "replace")
                results.append((i, "exited", err, dt, k, len(S), body))
            except subprocess.TimeoutExpired:
                p.kill()
                results.append((i, "still alive after 25s", "", 25, k, len(S), body))
        finally:
            try:
                p.kill()
            except OSError:
                pass

    results: list = []
    ths = [threading.Thread(target=one, args=(i, results)) for i in range(spec["runs"])]
    for t in ths:
        t.start()
    for t in ths:
        t.join(60)
    if len(results) != spec["runs"]:
        res.inconclusive.append(f"worker survivors: {len(results)}/{spec['runs']} harness threads reported")
    for r in results:
        res.count("worker_survivors")
        res.case(core.h64("worker", r[0], r[4] if len(r) > 4 else 0))
        if r[1] != "exited":
            res.violation("worker-survivor-" + r[1].replace(" ", "-"), short(r))
        elif "Traceback" in r[2]:
            res.violation("worker-survivor-traceback-on-stderr", r[2][-600:])
        res.info.setdefault("worker_exit_latency_s", {})[f"cut{r[4] if len(r) > 4 else 0}_{r[0]}"] = round(r[3], 2)
    res.sample({"worker_survivors": len(results)})
    return res


# ---------------------------------------------------------------------------
# real SIGKILLs

KILL_BODY = """
import os
channel.send(os.getpid())
n = channel.receive()
for i in range(n):
    channel.send((i, b'z' * (i % 700)))
import time
time.sleep(60)
"""


HOLD_PIPE_BODY = """
import os, subprocess
fd = channel.gateway._io.outfile.fileno()
os.set_inheritable(fd, True)
helper = subprocess.Popen(["sleep", "25"], pass_fds=[fd], stdin=subprocess.DEVNULL, stdout=subprocess.DEVNULL, stderr=subprocess.DEVNULL)
channel.send((os.getpid(), helper.pid))
channel.receive()
"""


def killed_but_pipe_held(res, spec):
    """the proxied worker dies, but a helper process it had started still holds its output pipe: the forwarder sees no end
    of stream; the loss shows when the initiator next sends something to the dead worker (the write fails in the forwarder)"""
    import execnet

    group = execnet.Group()
    helper = None
    label = "kill via (worker dead, its output pipe still held by a helper process)"
    try:
        group.makegateway("popen//id=m")
        gw = group.makegateway("popen//via=m")
        ch = gw.remote_exec(HOLD_PIPE_BODY)
        other = gw.remote_exec("channel.receive()")
        pid, helper = ch.receive(20)
        os.kill(pid, signal.SIGKILL)
        procs.wait_gone([pid], 5.0)
        outcomes = []
        for k in range(3):
            try:
                other.send(k)
                outcomes.append("accepted")
            except OSError:
                outcomes.append("OSError")
            time.sleep(0.2)
        res.count("kills")
        res.case(core.h64("kill-pipe-held"))
        for name, fn in (("waitclose", lambda: other.waitclose(15)), ("receive", lambda: ch.receive(15))):
            try:
                fn()
                res.violation(f"{name}-silent-after-kill:via", f"{label}: {name}() returned normally (sends: {outcomes})")
            except EOFError:
                pass
            except BaseException as e:  # noqa
                res.violation(f"{name}-after-kill-{type(e).__name__}:via", f"{label}: {str(e)[-200:]}")
        gw.join(10)
        if gw.hasreceiver():
            res.violation("gateway-still-receiving-after-kill:via", label)
        try:
            if group["m"].remote_exec("channel.send(6 * 7)").receive(20) != 42:
                res.violation("forwarder-gateway-disturbed:via", label)
        except BaseException as e:  # noqa
            res.violation("forwarder-gateway-disturbed:via", f"{label}: {type(e).__name__}: {e}")
        t0 = time.monotonic()
        try:
            group.terminate(2.0)
        except BaseException as e:  # noqa
            res.violation(f"terminate-raised-after-kill:via:{type(e).__name__}", f"{label}: {str(e)[-300:]}")
        if time.monotonic() - t0 > 20:
            res.violation("terminate-slow-after-kill:via", label)
    except BaseException as e:  # noqa
        res.violation(f"kill-run-raised:via:{type(e).__name__}", f"{label}: {str(e)[-300:]}")
    finally:
        if helper:
            try:
                os.kill(helper, signal.SIGKILL)
            except OSError:
                pass
        try:
            group.terminate(2.0)
        except BaseException:  # noqa
            pass


VIA_CUT_BODY = """
for i in range(%d):
    channel.send(("item", i, b"x" * %d))
channel.receive()
"""


def via_connection_cut_between_frames(res, cut, use_callback, nitems, pad):
    """the connection initiator <-> forwarding process ends after `cut` complete frames of that (outer) connection while a
    proxied worker is sending: whatever the inner stream looks like at that point, the initiator sees complete items only,
    in order, then EOFError (callbacks: the endmarker, once), waitclose raises EOFError, the proxied gateway stops receiving"""
    import execnet
    from execnet import gateway_base

    label = f"via connection cut after {cut} outer frames ({'callback' if use_callback else 'queue'} channel, {nitems} items of {pad}+ bytes)"
    mk = "callback" if use_callback else "queue"
    state = {"armed": False, "count": 0, "io": None}
    orig = gateway_base.Message.__dict__["from_io"]
    orig_fn = gateway_base.Message.from_io

    def from_io(io):
        msg = orig_fn(io)
        if state["armed"] and io is state["io"]:
            if state["count"] >= cut:
                raise EOFError("couldn't load message header (connection cut by the monitor)")
            state["count"] += 1
        return msg

    group = execnet.Group()
    gateway_base.Message.from_io = staticmethod(from_io)
    try:
        m = group.makegateway("popen//id=m")
        sub = group.makegateway("popen//via=m//id=sub")
        state["io"] = m._io
        state["armed"] = True
        ch = sub.remote_exec(VIA_CUT_BODY % (nitems, pad))
        got = []
        END = ("__end__",)
        ends = []
        if use_callback:
            done = threading.Event()

            def cb(item):
                if item is END:
                    ends.append(1)
                    done.set()
                else:
                    got.append(item)

            ch.setcallback(cb, endmarker=END)
            if not done.wait(20):
                res.violation(f"via-cut-endmarker-never-delivered:{mk}", label)
            time.sleep(0.05)
            if len(ends) > 1:
                res.violation(f"via-cut-endmarker-delivered-twice:{mk}", label)
        else:
            while True:
                try:
                    got.append(ch.receive(20))
                except EOFError:
                    break
                except BaseException as e:  # noqa
                    res.violation(f"via-cut-receive-{type(e).__name__}:{mk}", f"{label}: {str(e)[-200:]}")
                    break
        if state["count"] < cut:
            # the connection never carried that many frames: nothing was cut, no verdict from this run
            res.count("via_outer_frame_cuts_not_reached")
            return
        res.count("via_outer_frame_cuts")
        res.count("via_cut_items_delivered", len(got))
        res.case(core.h64("via-cut", cut, use_callback, nitems, pad))
        expected = [("item", i, b"x" * pad) for i in range(nitems)]
        if got != expected[: len(got)]:
            res.violation(f"via-cut-delivered-partial-or-foreign-item:{mk}", f"{label}: {short(got[-2:], 120)}")
        for attempt in (1, 2):
            try:
                ch.waitclose(20)
                res.violation(f"via-cut-waitclose-silent:{mk}", label)
            except EOFError:
                pass
            except BaseException as e:  # noqa
                res.violation(f"via-cut-waitclose-{type(e).__name__}:{mk}", f"{label}: attempt {attempt}: {str(e)[-200:]}")
        sub.join(20)
        if sub.hasreceiver():
            res.violation(f"via-cut-gateway-still-receiving:{mk}", label)
        # (sends are not judged here: only the receiving half of the connection is ended by the monitor, the descriptors stay
        # open, so whether a later send is refused depends on how far the teardown has got - the real cuts above cover that)
    except BaseException as e:  # noqa
        res.violation(f"via-cut-run-raised:{type(e).__name__}", f"{label}: {str(e)[-300:]}")
    finally:
        state["armed"] = False
        gateway_base.Message.from_io = orig
        try:
            group.terminate(2.0)
        except BaseException:  # noqa
            pass



def run_kill(spec):
    import execnet

    res = Result()
    rng = core.rng_for("C04k", spec["tier"], spec["seed"], spec["spec"])
    if spec["spec"] == "via":
        for _ in range(2 if spec["tier"] == "quick" else 20):
            killed_but_pipe_held(res, spec)
        quick = spec["tier"] == "quick"
        for nitems, pad in ((5, 20),) if quick else ((5, 20), (3, 0), (4, 70000)):
            # (the worker's items alone make `nitems` frames on that connection, so every one of these cuts is reached)
            for cut in range(0, nitems):
                for use_callback in (False, True):
                    via_connection_cut_between_frames(res, cut, use_callback, nitems, pad)
    for run in range(spec["runs"]):
        group = execnet.Group()
        try:
            if spec["spec"] == "popen":
                gw = group.makegateway("popen")
            elif spec["spec"] == "socket":
                group.makegateway("popen//id=m")
                gw = group.makegateway("socket//installvia=m")
            else:
                group.makegateway("popen//id=m")
                gw = group.makegateway("popen//via=m")
            n = rng.choice((0, 10, 300, 3000))
            ch = gw.remote_exec(KILL_BODY)
            other = gw.remote_exec("channel.receive()")
            cbgot = []
            cbch = gw.remote_exec("import time\nchannel.send('hello')\ntime.sleep(60)")
            cbch.setcallback(cbgot.append, endmarker="__end__")
            pid = ch.receive(20)
            target = "worker"
            if spec["spec"] != "popen" and rng.random() < 0.4:
                # the process in the middle dies instead: the forwarder of a via gateway / the host of the socket server
                target = "master"
                pid = group["m"].remote_exec("import os\nchannel.send(os.getpid())").receive(20)
            blocked_wait: list = []

            def waiter():
                try:
                    other.waitclose(40)
                    blocked_wait.append("returned")
                except EOFError:
                    blocked_wait.append("EOFError")
                except BaseException as e:  # noqa
                    blocked_wait.append(type(e).__name__)

            wt = threading.Thread(target=waiter, daemon=True)
            wt.start()
            from vlib import pairs

            pairs.wait_until(lambda: cbgot == ["hello"], 20)
            ch.send(n)
            j = rng.randint(0, n)
            got = []
            for _ in range(j):
                got.append(ch.receive(20))
            exit_first = target == "worker" and run % 3 == 1
            if exit_first:
                # the survivor has just asked the gateway to exit (the worker is still busy, in its grace period) when the
                # process dies: for everybody waiting on its channels that is the same loss
                gw.exit()
                res.count("kills_right_after_exit_was_requested")
            os.kill(pid, signal.SIGKILL)
            t0 = time.monotonic()
            term = None
            try:
                while True:
                    got.append(ch.receive(20))
            except EOFError:
                term = "EOFError"
            except BaseException as e:  # noqa
                term = type(e).__name__ + ": " + str(e)[:100]
            label = f"kill {spec['spec']} ({target}) n={n} after j={j}{' right after gw.exit()' if exit_first else ''}"
            res.count("kills")
            res.case(core.h64("kill", spec["spec"], run, n, j))
            if term != "EOFError":
                res.violation(f"receive-after-kill-ended-with:{spec['spec']}", f"{label}: {term}")
            seqs = [g[0] for g in got if isinstance(g, tuple) and len(g) == 2 and g[1] == b"z" * (g[0] % 700)]
            if len(seqs) != len(got) or seqs != list(range(len(seqs))):
                res.violation(f"items-after-kill-not-a-clean-prefix:{spec['spec']}", f"{label}: {short(got[-3:])}")
            try:
                other.receive(15)
                res.violation(f"sibling-receive-returned-after-kill:{spec['spec']}", label)
            except EOFError:
                pass
            except BaseException as e:
                res.violation(f"sibling-receive-after-kill-{type(e).__name__}:{spec['spec']}", label)
            try:
                other.waitclose(15)
                res.violation(f"waitclose-silent-after-kill:{spec['spec']}", f"{label}: a later waitclose() on a channel nobody closed returned normally")
            except EOFError:
                pass
            except BaseException as e:
                res.violation(f"sibling-waitclose-after-kill-{type(e).__name__}:{spec['spec']}", label)
            wt.join(20)
            if blocked_wait != ["EOFError"]:
                res.violation(f"blocked-waitclose-after-kill-{(blocked_wait or ['still-blocked'])[0]}:{spec['spec']}", label)
            from vlib import pairs

            pairs.wait_until(lambda: "__end__" in cbgot, 10)
            if cbgot != ["hello", "__end__"]:
                res.violation(f"callback-after-kill:{spec['spec']}", f"{label}: {cbgot}")
            gw.join(10)
            if gw.hasreceiver():
                res.violation(f"gateway-still-receiving-after-kill:{spec['spec']}", label)
            for name, op in (("newchannel", gw.newchannel), ("remote_exec", lambda: gw.remote_exec("pass")), ("send", lambda: ch.send(1))):
                out = in_own_thread(op)
                if out == "blocked":
                    res.violation(f"{name}-after-kill-blocks:{spec['spec']}", f"{label}: no answer within 10 s")
                elif out == "accepted":
                    res.violation(f"{name}-after-kill-accepted:{spec['spec']}", label)
                elif out != "OSError":
                    res.violation(f"{name}-after-kill-raised-{out.split(':')[0]}:{spec['spec']}", f"{label}: {out}")
        except BaseException as e:
            res.violation(f"kill-run-raised:{spec['spec']}:{type(e).__name__}", str(e)[-300:])
        finally:
            group.terminate(2.0)
    res.sample({"kills": spec["runs"], "spec": spec["spec"]})
    return res
