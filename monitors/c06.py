"""C06 - remote_exec runs exactly the given code with a live channel and clean stdio."""

from __future__ import annotations

import importlib
import io
import os
import shutil
import sys
import tempfile
import textwrap
import time

from ref import codec
from vlib import core
from vlib import dsl
from vlib import values
from vlib.core import Result
from vlib.core import short

ID = "C06"
LEVEL = "exploration"
RULE = ("generated remote programs (sends, receive-and-echo of generated values, prints / sys.stdout / sys.__stdout__ / os.write(1|2) / os.system "
        "output of 0 B-1 MB, __name__, type(channel), attempted explicit close, sub-channels, a raise at any statement) rendered as source "
        "string, as a function in a generated module file with generated keyword arguments, and as a module; run on real popen / socket / via "
        "workers with a read-side tee on the initiator's IO; plus generated function shapes for the local purity check. distinct = distinct "
        "(program, form, transport) cases and function shapes")
ASSUMPTIONS = [
    "eval/exec/globals() tricks that hide a global from any static check are outside the generator (undecidable)",
    "the reference frame parser decides what counts as a well-formed protocol stream",
]
MINIMUM = {"programs": 120, "wire_bytes_parsed": 100000, "purity_shapes": 30, "traceback_lines_checked": 20}
SHARD_TIMEOUT = {"quick": 150, "thorough": 3000}


def shards(tier, seed):
    out = []
    for i in range(8 if tier == "quick" else 16):
        out.append({"kind": "programs", "spec": "popen", "n": 60 if tier == "quick" else 12000})
    for sp in ("socket", "via", "python"):
        out.append({"kind": "programs", "spec": sp, "n": 45 if tier == "quick" else 6000})
    for closed in ([2], [0, 2], [1, 2], [0, 1, 2]):
        out.append({"kind": "programs", "spec": "popen" if len(closed) % 2 else "python", "n": 30 if tier == "quick" else 1500, "closed_fds": closed})
    for so in ("none", "stringio"):
        out.append({"kind": "programs", "spec": "popen" if so == "none" else "python", "n": 30 if tier == "quick" else 1500, "stderr_object": so})
    out.append({"kind": "purity"})
    return out


def run_shard(spec):
    return run_programs(spec) if spec["kind"] == "programs" else run_purity(spec)


def make_gateway(group, which):
    from vlib import pairs

    if which == "popen":
        return pairs.make_teed_gateway(group, "popen")
    if which == "python":
        return pairs.make_teed_gateway(group, f"popen//python={sys.executable}")
    group.makegateway("popen//id=master")
    if which == "socket":
        return pairs.make_teed_gateway(group, "socket//installvia=master")
    return pairs.make_teed_gateway(group, "popen//via=master")


def check_wire(res, tee, chan_transcripts, label, m):
    """every byte the initiator's receiver thread read belongs to a well-formed frame for a known channel"""
    stream = tee.read_stream()
    if stream[:1] != b"1":
        res.violation(m("bootstrap-ack-missing"), f"{label}: stream starts with {stream[:10]!r}")
        return
    try:
        frames, rest = codec.parse_frames(stream[1:])
    except codec.RefError as e:
        res.violation(m("stray-bytes-in-protocol-stream"), f"{label}: {e}")
        return
    res.count("wire_bytes_parsed", len(stream))
    if rest:
        res.violation(m("stray-bytes-in-protocol-stream"), f"{label}: {len(rest)} trailing bytes {rest[:40]!r}")
    for code, cid, payload, s, e in frames:
        if code not in codec.MSGNAME:
            res.violation(m("stray-bytes-in-protocol-stream"), f"{label}: unknown message code {code} at offset {s}")
            return
        if code == codec.MSG["CHANNEL_DATA"]:
            try:
                codec.decode(payload, versioned=False)
            except codec.RefError as ex:
                res.violation(m("undecodable-data-frame"), f"{label}: channel {cid}: {ex}")


INSIDE_CLOSE = r"""
report = channel.receive()
try:
    channel.receive()  # ends with EOFError (or the initiator's error text) once the initiator's end of this channel is gone
except (EOFError, channel.RemoteError):
    pass
out = []
for arg in ((), ("an error text",), ()):
    try:
        channel.close(*arg)
        out.append("closed")
    except OSError:
        out.append("refused")
report.send(out)
"""


def inside_close_after_peer_end(res, gw, rng, m):
    """'an explicit close from inside is refused' also after the initiating side has closed or dropped its end"""
    import gc

    how = rng.choice(("close", "drop", "drop_with_callback", "close_error"))
    label = f"inside close after the initiator's {how}"
    report = gw.newchannel()
    ch = gw.remote_exec(INSIDE_CLOSE)
    ch.send(report)
    if how == "close":
        ch.close()
    elif how == "close_error":
        ch.close("initiator gives up")
    elif how == "drop_with_callback":
        ch.setcallback(lambda item: None)
        del ch
    else:
        del ch
    gc.collect()
    res.count("inside_close_attempts")
    try:
        out = report.receive(20)
    except BaseException as e:  # noqa
        res.violation(m("inside-close-probe-failed"), f"{label}: {type(e).__name__}: {e}")
        return
    out = [x.decode() if isinstance(x, bytes) else x for x in out]  # (gateways with switched string coercion)
    if out != ["refused"] * 3:
        res.violation(m("inside-close-accepted-after-peer-end"), f"{label}: channel.close() from inside the running code -> {out}")
    report.close()


RAW_STDERR_PROBE = """
import os, sys
n = channel.receive()
for fd in (2, 1):
    try:
        os.write(fd, b"confusion" * n)
    except OSError:
        pass
for f in (sys.stderr, sys.__stderr__, sys.stdout):
    try:
        f.write("confusion" * n)
        f.flush()
    except (OSError, ValueError, AttributeError):
        pass
os.system("echo confusion 1>&2; echo confusion")
channel.send(("after the writes", n))
"""


def raw_writes_with_inherited_closed_fds(res, gw, rng, m, closed):
    """A worker whose initiator had standard descriptors closed when it started it: the lowest free descriptors are then
    handed to whatever the worker opens first. Raw writes to descriptors 1 and 2 still never enter the protocol stream."""
    n = rng.choice((1, 1, 2, 100, 8000))
    label = f"worker started with {'descriptors ' + str(closed) + ' closed' if isinstance(closed, list) else closed}; remote code writes {9 * n} bytes to fd 2, fd 1, sys.stderr, sys.stdout"
    res.count("raw_write_probes_with_closed_descriptors")
    try:
        ch = gw.remote_exec(RAW_STDERR_PROBE)
        ch.send(n)
        got = ch.receive(20)
        ch.waitclose(20)
        echo = gw.remote_exec("channel.send(channel.receive())")
        echo.send(("still", "usable", n))
        got2 = echo.receive(20)
    except BaseException as e:  # noqa
        res.violation(m("raw-write-entered-protocol-stream"), f"{label}: {type(e).__name__}: {str(e)[:200]}")
        return False
    norm = lambda t: tuple(x.decode() if isinstance(x, bytes) else x for x in t) if isinstance(t, tuple) else t  # (switched string coercion)
    if norm(got) != ("after the writes", n) or norm(got2) != ("still", "usable", n):
        res.violation(m("raw-write-entered-protocol-stream"), f"{label}: received {short(got, 100)} then {short(got2, 100)}")
        return False
    return True


def same_size_same_mtime_rewrite(res, gw, moddir, modname, m):
    """remote_exec(module) runs the module's source as it is now - also when an edit kept the file's size and a tool
    restored its timestamps (caches keyed by size and mtime must not decide what is shipped)"""
    path = os.path.join(moddir, modname + ".py")
    with open(path, "w") as f:
        f.write("VALUE = 111\nif __name__ == '__channelexec__':\n    channel.send(VALUE)\n")
    importlib.invalidate_caches()
    mod = importlib.import_module(modname)
    first = gw.remote_exec(mod).receive(20)
    st = os.stat(path)
    with open(path, "w") as f:
        f.write("VALUE = 222\nif __name__ == '__channelexec__':\n    channel.send(VALUE)\n")
    os.utime(path, ns=(st.st_atime_ns, st.st_mtime_ns))
    second = gw.remote_exec(mod).receive(20)
    res.count("same_size_same_mtime_rewrites")
    if (first, second) != (111, 222):
        res.violation(m("module-rewritten-in-place-runs-stale-source"), f"{modname}: first run sent {first!r}, after the edit {second!r} (want 111, 222)")


def run_programs(spec):
    import execnet
    from execnet.gateway_base import RemoteError

    res = Result()
    rng = core.rng_for("C06", spec["tier"], spec["seed"], spec["shard"])
    g = values.Gen(rng, max_bytes=3000, huge_ints=False, max_depth=4)
    moddir = tempfile.mkdtemp(prefix="verif-c06-")
    sys.path.insert(0, moddir)
    group = execnet.Group()
    m = lambda name: f"{name}:{spec['spec']}"
    closed = spec.get("closed_fds") or []
    try:
        if closed:
            # the worker is started by a process that has some of its standard descriptors closed (a daemon, `2>&-`):
            # this process's own standard streams move out of the way first, and the descriptors are pointed at the null
            # device again as soon as the worker runs
            import fcntl

            null = os.open(os.devnull, os.O_RDWR)
            hi = fcntl.fcntl(null, fcntl.F_DUPFD, 100)
            os.close(null)
            sink = open(hi, "w")
            sys.stdout = sys.stderr = sys.__stdout__ = sys.__stderr__ = sink
            for fd in closed:
                os.close(fd)
        stderr_object = spec.get("stderr_object")
        if stderr_object:
            # the initiating program has replaced sys.stderr by something without a file descriptor (None under pythonw /
            # services, a StringIO under a test runner or IDE) at the moment the worker is started
            saved_stderr = sys.stderr
            sys.stderr = None if stderr_object == "none" else io.StringIO()
        try:
            gw, tee = make_gateway(group, spec["spec"])
        finally:
            if stderr_object:
                sys.stderr = saved_stderr
        for fd in closed:
            try:
                os.fstat(fd)  # taken by one of the pipes to the worker meanwhile: leave it
            except OSError:
                os.dup2(hi, fd)
        # on some gateways the string coercion is switched (both sides then load str items as bytes); what is executed
        # and how failures and keyword arguments travel must not depend on it
        py2 = spec["shard"] % 3 == 2
        if py2:
            gw.reconfigure(py2str_as_py3str=True, py3str_as_py2str=True)
            res.count("gateways_with_py3str_as_py2str")
        for i in range(spec["n"]):
            if res.enough(10):
                break
            if i % 15 == 7:
                inside_close_after_peer_end(res, gw, rng, m)
            if (closed or stderr_object) and i % 3 == 0:
                if not raw_writes_with_inherited_closed_fds(res, gw, rng, m, closed or f"sys.stderr={stderr_object}"):
                    break
            if i % 15 == 3:
                same_size_same_mtime_rewrite(res, gw, moddir, f"verif_c06_ss_{spec['shard']}_{i}", m)
            form = ("string", "function", "module")[i % 3]
            prog = dsl.gen_program(rng, g, big=(i % 17 == 0))
            if closed:
                # (the worker has no standard error: sys.stderr is None there and descriptor 2 is not writable, so remote
                # code that writes to them fails on its own account; the raw writes are covered by the probe above)
                prog["stmts"] = [("noise", "print", s[2]) if s[0] == "noise" and s[1] in ("stderr_write", "os_write2") else s for s in prog["stmts"]]
            if form != "function":
                prog["stmts"] = [s for s in prog["stmts"] if s[0] != "kwarg"]
                prog["kwargs"] = {}
            else:
                # (a helper defined inside the function would be a nested scope, which the purity check may refuse)
                prog["stmts"] = [s[:3] if s[0] == "raise" else s for s in prog["stmts"]]
            label = f"{form} program #{i}: {short([s[:2] if s[0] != 'echo' else ('echo',) for s in prog['stmts']], 300)}"
            res.case(core.h64(spec["spec"], form, repr(prog["stmts"])[:2000], i))
            t_final = [None]
            try:
                if form == "string":
                    src, raise_ln = dsl.render_string(prog)
                    fname = "<remote exec>"
                    ch = gw.remote_exec(src)
                else:
                    # every other function/module program re-uses the previous module file: same file name, same function
                    # name and line, new body (the module is rewritten and re-imported) - remote_exec must run the new code
                    reuse = (i % 6) in (4, 5)
                    modname = f"verif_c06_{spec['shard']}_{i - 3 if reuse else i}"
                    if form == "function":
                        src, raise_ln = dsl.render_function_module(prog, modname)
                    else:
                        src, raise_ln = dsl.render_module(prog, modname)
                    fname = os.path.join(moddir, modname + ".py")
                    with open(fname, "w") as f:
                        f.write(src)
                    importlib.invalidate_caches()
                    import linecache

                    linecache.checkcache(fname)
                    if modname in sys.modules:
                        mod = importlib.reload(sys.modules[modname])
                        res.count("rewritten_module_programs")
                    else:
                        mod = importlib.import_module(modname)
                    if form == "function":
                        ch = gw.remote_exec(mod.remote_entry, **prog["kwargs"])
                    else:
                        ch = gw.remote_exec(mod)
                observed = dsl.drive(prog, ch)
            except BaseException as e:
                res.violation(m(f"program-raised-{type(e).__name__}"), f"{label}: {str(e)[-300:]}")
                break
            res.count("programs")
            if i < 2:
                res.sample({"form": form, "stmts": short(prog["stmts"], 200), "observed_len": len(observed)})
            diff = dsl.compare(observed, dsl.predict(prog, py2=py2))
            if diff:
                kinds = sorted({s[0] for s in prog["stmts"]})
                bad = "kwargs" if "'kw'" in diff else "transcript"
                res.violation(m(f"{bad}-differs-from-program:{form}"), f"{label}: {diff}")
            # (2) traceback names file and line
            err = next((o for o in observed if isinstance(o, tuple) and o and o[0] == "RemoteError"), None)
            if err is not None and raise_ln is not None:
                res.count("traceback_lines_checked")
                text = err[1]
                want = f'File "{fname}", line {raise_ln}'
                if want not in text:
                    res.violation(m(f"traceback-file-or-line-wrong:{form}"), f"{label}: want {want!r} in {text[-400:]!r}")
            # (3) closes by itself exactly when the code finished
            try:
                ch.waitclose(20)
            except RemoteError:
                pass
            except BaseException as e:
                res.violation(m("exec-channel-did-not-close"), f"{label}: {type(e).__name__}")
            if not ch.isclosed():
                res.violation(m("exec-channel-not-closed-after-end"), label)
        # (4) wire purity over everything this gateway read
        check_wire(res, tee, None, f"gateway {spec['spec']}", m)
        if not gw.hasreceiver():
            res.violation(m("gateway-lost"), "receiver thread ended during the programs")
    except BaseException as e:
        res.violation(f"shard-raised:{spec['spec']}:{type(e).__name__}", str(e)[-300:])
    finally:
        group.terminate(3.0)
        sys.path.remove(moddir)
        shutil.rmtree(moddir, ignore_errors=True)
    for k, c in g.counts.items():
        res.count("gen_" + k, c)
    return res


# ---------------------------------------------------------------------------
# (5) purity check: generated function shapes

SHAPES_SRC = '''
import os
import os as _osalias

CONSTANT = 17


def helper(x):
    return x + 1


def max(*args):  # a module-level global that shadows a builtin
    return "shadowed-max"


def len(x):  # another one
    return -1


def plain(channel):
    channel.send(("plain", 1))


def with_defaults(channel, a=3, b="x"):
    channel.send(("defaults", a, b))


def builtins_only(channel, n):
    channel.send(("builtins", sorted([n, 1, 2]), str(n), isinstance(n, int), sum(range(n))))


def nested_defs(channel, n):
    def inner(k):
        return k * 2

    class Local:
        value = 5

    channel.send(("nested", inner(n), Local.value))


def recursion(channel, n):
    def fact(k):
        return 1 if k <= 1 else k * fact(k - 1)

    channel.send(("fact", fact(n)))


def local_import(channel):
    import json

    channel.send(("json", json.dumps([1, 2])))


def uses_constant(channel):
    channel.send(CONSTANT)


def uses_module_import(channel):
    channel.send(os.getpid())


def uses_alias(channel):
    channel.send(_osalias.sep)


def uses_helper(channel):
    channel.send(helper(1))


def uses_shadowed_max(channel):
    channel.send(("max", max(1, 2)))


def uses_shadowed_len(channel):
    channel.send(("len", len("abc")))


def wrong_first(chan):
    chan.send(1)


def no_args():
    pass


def star_args(*args):
    args[0].send(1)


def channel_second(x, channel):
    channel.send(x)


def star_channel(*channel):
    channel[0].send(1)


def kwonly_channel(*, channel):
    channel.send(1)


def starstar_channel(**channel):
    pass


def method_like(self, channel):
    channel.send(1)


def channel_with_default(channel=None, n=2):
    channel.send(("default", n))


def make_closure():
    captured = 41

    def closure(channel):
        channel.send(captured + 1)

    return closure


closure = make_closure()

lam = lambda channel: channel.send(1)  # noqa: E731


def deco(f):
    return f


@deco
def decorated_identity(channel):
    channel.send(("decorated", 1))


def wrapping(f):
    def wrapper(channel):
        return f(channel)

    return wrapper


@wrapping
def decorated_wrapped(channel):
    channel.send(("wrapped", 1))


def pure_inner(channel):
    channel.send(("pure", 3))


def posonly_channel(channel, /, n=2):
    channel.send(("posonly", n))


def counting(f):
    import functools

    @functools.wraps(f)
    def wrapper(channel):
        channel.send("wrapper ran")
        return f(channel)

    return wrapper


wrapped_by_call = counting(pure_inner)  # carries __wrapped__; what would run is the wrapper, a closure


def uses_global_statement(channel):
    global CONSTANT
    channel.send(CONSTANT)


def global_augassign(channel):
    global CONSTANT
    CONSTANT += 1
    channel.send("bumped")


def global_store(channel):
    global SOMETHING_NEW
    SOMETHING_NEW = 1
    channel.send("stored")


def global_del(channel):
    global CONSTANT
    del CONSTANT
    channel.send("deleted")


def attribute_of_global(channel):
    channel.send(os.path.sep)


def nested_uses_global(channel):
    def inner():
        return helper(2)

    channel.send(inner())
'''

# name -> (expected, kwargs): "ok" = must be accepted and behave like the local call; "reject" = ValueError/TypeError locally
SHAPES = {
    "plain": ("ok", {}), "with_defaults": ("ok", {}), "with_defaults#kw": ("ok", {"a": 9, "b": "y"}), "builtins_only": ("ok", {"n": 4}),
    # the purity check is conservative about names bound inside nested scopes and about decorator names: such functions may
    # be refused; if they are accepted they must behave like the local call
    "nested_defs": ("either", {"n": 3}), "recursion": ("either", {"n": 5}), "local_import": ("ok", {}), "decorated_identity": ("either", {}),
    "uses_constant": ("reject", {}), "uses_module_import": ("reject", {}), "uses_alias": ("reject", {}), "uses_helper": ("reject", {}),
    "uses_shadowed_max": ("reject", {}), "uses_shadowed_len": ("reject", {}), "wrong_first": ("reject", {}), "no_args": ("reject", {}),
    "star_args": ("reject", {}), "channel_second": ("reject", {"x": 1}), "star_channel": ("reject", {}), "kwonly_channel": ("reject", {}),
    "starstar_channel": ("reject", {}), "method_like": ("reject", {}), "channel_with_default": ("ok", {}), "closure": ("reject", {}), "lam": ("reject", {}),
    "decorated_wrapped": ("reject", {}), "wrapped_by_call": ("reject", {}), "pure_inner": ("ok", {}), "posonly_channel": ("ok", {}), "posonly_channel#kw": ("ok", {"n": 5}), "uses_global_statement": ("reject", {}), "nested_uses_global": ("reject", {}),
    "global_augassign": ("reject", {}), "global_store": ("reject", {}), "global_del": ("reject", {}), "attribute_of_global": ("reject", {}),
}


class FakeChannel:
    def __init__(self):
        self.sent = []

    def send(self, x):
        self.sent.append(x)


def run_purity(spec):
    from execnet.gateway_base import RemoteError
    from vlib import pairs

    res = Result()
    moddir = tempfile.mkdtemp(prefix="verif-c06p-")
    sys.path.insert(0, moddir)
    pair = pairs.Pair("pipe", tee=True)
    gw = pair.gw
    try:
        with open(os.path.join(moddir, "verif_c06_shapes.py"), "w") as f:
            f.write(SHAPES_SRC)
        importlib.invalidate_caches()
        mod = importlib.import_module("verif_c06_shapes")
        reps = 2 if spec["tier"] == "quick" else 200
        for rep in range(reps):
            for key, (want, kwargs) in SHAPES.items():
                name = key.split("#")[0]
                fn = getattr(mod, name)
                res.count("purity_shapes")
                res.case(core.h64("shape", key))
                writes_before = len(pair.io_a.writes)
                chans_before = len(gw._channelfactory._channels)
                label = f"shape {key}"
                try:
                    ch = gw.remote_exec(fn, **kwargs)
                except (ValueError, TypeError) as e:
                    if want == "ok":
                        res.violation(f"pure-function-rejected:{name}", f"{label}: {type(e).__name__}: {e}")
                    else:
                        # rejected before anything was sent, no channel left behind
                        if len(pair.io_a.writes) != writes_before:
                            res.violation(f"bytes-sent-for-rejected-function:{name}", label)
                        if len(gw._channelfactory._channels) != chans_before:
                            res.violation(f"channel-created-for-rejected-function:{name}", label)
                    continue
                except BaseException as e:
                    res.violation(f"remote-exec-raised-{type(e).__name__}:{name}", f"{label}: {e}")
                    continue
                # accepted: its remote transcript must equal calling it locally
                got = []
                err = None
                try:
                    while True:
                        got.append(ch.receive(10))
                except EOFError:
                    pass
                except RemoteError as e:
                    err = str(e)
                fake = FakeChannel()
                lerr = None
                try:
                    fn(fake, **kwargs)
                except BaseException as e:
                    lerr = repr(e)
                if want == "either":
                    want = "ok"
                if want == "reject":
                    same = (got == fake.sent and (err is None) == (lerr is None))
                    res.violation(f"impure-function-accepted:{name}", f"{label}: remote {short(got)} err={bool(err)}; local {short(fake.sent)} err={lerr}"
                                  + ("" if not same else " (happens to behave alike)"))
                elif got != fake.sent or (err is None) != (lerr is None):
                    res.violation(f"accepted-function-behaves-differently:{name}", f"{label}: remote {short(got)} {str(err)[-200:]}; local {short(fake.sent)} {lerr}")
        res.sample({"shapes": sorted(SHAPES)})
    finally:
        pair.close()
        sys.path.remove(moddir)
        shutil.rmtree(moddir, ignore_errors=True)
    return res
