"""C16 - every transport is observationally equivalent for channel programs."""

from __future__ import annotations

import hashlib
import sys
import threading
import time

from vlib import core
from vlib import dsl
from vlib import procs
from vlib import values
from vlib.core import Result
from vlib.core import short

ID = "C16"
LEVEL = "exploration"
RULE = ("the same seeded channel programs (DSL programs of C06: echoes of generated values, sub-channels, attempted close, raises; plus a bulk "
        "program: items up to 1 MB quick / 4 MB thorough carrying all 256 byte values in both directions, a sub-channel with a worker-side "
        "callback, a final remote error) run on {popen, popen//python=, socket//installvia, popen//via} x worker exec models {thread, "
        "main_thread_only, gevent}; every transcript must equal the DSL prediction and the popen/thread transcript. Proxy control path: "
        "wait / kill / close_write must reach the proxied process (/proc observer). distinct = distinct (program, configuration) cases")
ASSUMPTIONS = [
    "socket gateways run inside their server's process with the server's exec model; they are driven with thread-model servers",
    "eventlet is not installed; ssh/vagrant transports cannot be run (no server)",
]
MINIMUM = {"programs": 150, "configs": 8, "bulk_bytes": 5000000, "control_checks": 6}
SHARD_TIMEOUT = {"quick": 150, "thorough": 3000}

TRANSPORTS = ["popen", "python", "socket", "via"]
MODELS = ["thread", "main_thread_only", "gevent"]


def configs():
    out = []
    for t in TRANSPORTS:
        for md in MODELS:
            if t == "socket" and md == "main_thread_only":
                continue  # a main_thread_only master is occupied by the server loop (documented)
            out.append((t, md))
    # the same source shipped to other supported interpreters than the one that runs the initiating side
    for t, md in (("py3.10", "thread"), ("py3.10", "main_thread_only"), ("py3.11", "thread"), ("py3.13", "main_thread_only"), ("via-py3.10", "thread")):
        if other_python(t) is not None:
            out.append((t, md))
    return out


def other_python(transport):
    import glob

    ver = transport.split("py", 1)[1]
    found = sorted(glob.glob(f"/root/.pyenv/versions/{ver}.*/bin/python"))
    return found[-1] if found else None


def shards(tier, seed):
    out = [{"kind": "config", "transport": t, "model": md, "n": 40 if tier == "quick" else 5000} for t, md in configs()]
    out.append({"kind": "cross", "n": 12 if tier == "quick" else 2000})
    out.append({"kind": "control", "reps": 2 if tier == "quick" else 20})
    return out


def run_shard(spec):
    return {"config": run_config, "cross": run_cross, "control": run_control}[spec["kind"]](spec)


def make_gateway(group, transport, model):
    if transport == "popen":
        return group.makegateway(f"popen//execmodel={model}")
    if transport == "python":
        return group.makegateway(f"popen//python={sys.executable}//execmodel={model}")
    if transport.startswith("py3"):
        return group.makegateway(f"popen//python={other_python(transport)}//execmodel={model}")
    if transport.startswith("via-py3"):
        if "master" not in group:
            group.makegateway("popen//id=master")
        return group.makegateway(f"popen//via=master//python={other_python(transport)}//execmodel={model}")
    if transport == "socket":
        # the socket gateway lives in its server's process and takes that process' exec model
        if "smaster" not in group:
            group.makegateway(f"popen//id=smaster//execmodel={model}")
        return group.makegateway("socket//installvia=smaster")
    if "master" not in group:
        group.makegateway("popen//id=master")
    return group.makegateway(f"popen//via=master//execmodel={model}")


BULK = r"""
import hashlib
n = channel.receive()
for i in range(n):
    x = channel.receive()
    channel.send((len(x), hashlib.sha1(x).hexdigest()))
    channel.send(x[::-1])
# pipelined phase: many frames back to back in both directions (big ones followed by small ones)
burst = channel.receive()
for size in burst:
    channel.send(bytes([size % 251]) * size)
seen = []
for size in burst:
    y = channel.receive()
    seen.append((len(y), hashlib.sha1(y).hexdigest()))
channel.send(seen)
# several sub-channels filled concurrently from several threads of the initiator
npar, nper = channel.receive()
pars = [channel.gateway.newchannel() for i in range(npar)]
channel.send(pars)
plog = []
for c in pars:
    seen = []
    for x in c:
        seen.append((len(x), hashlib.sha1(x).hexdigest()))
    plog.append(seen)
channel.send(plog)
sub = channel.gateway.newchannel()
channel.send(sub)
got = []
sub.setcallback(got.append, endmarker="<end>")
channel.receive()
channel.send(got)
raise ValueError("bulk-final-error")
"""


def bulk_items(rng, maxsize):
    allbytes = bytes(range(256))
    out = []
    for size in (0, 1, 255, 256, 65535, 65537, rng.choice((300000, maxsize))):
        reps = size // 256 + 1
        out.append((allbytes * reps)[:size])
    return out


def run_bulk(gw, rng, maxsize):
    """-> normalised transcript"""
    from execnet.gateway_base import RemoteError

    items = bulk_items(rng, maxsize)
    ch = gw.remote_exec(BULK)
    ch.send(len(items))
    tr = []
    nbytes = 0
    for x in items:
        ch.send(x)
        ln, dg = ch.receive(60)
        back = ch.receive(60)
        nbytes += 2 * len(x)
        tr.append((ln, dg, hashlib.sha1(back).hexdigest(), len(back)))
    burst = [rng.choice((0, 1, 7, 100, 5000)) if i % 3 else rng.choice((200000, 700000, maxsize)) for i in range(rng.choice((6, 12)))]
    ch.send(burst)
    got_burst = [ch.receive(60) for _ in burst]
    tr.append(("burst-in", [(len(y), hashlib.sha1(y).hexdigest()) for y in got_burst]))
    for size in burst:
        ch.send(bytes([size % 199]) * size)
    tr.append(("burst-out", [tuple(x) for x in ch.receive(60)]))
    nbytes += 2 * sum(burst)
    npar, nper = rng.choice((2, 3)), rng.choice((2, 4))
    ch.send((npar, nper))
    pars = ch.receive(60)
    psize = rng.choice((70000, 300000, min(maxsize, 1 << 20)))

    def psend(t):
        for s in range(nper):
            pars[t].send(bytes([65 + t]) * (psize + s))
        pars[t].close()

    pths = [threading.Thread(target=psend, args=(t,), daemon=True) for t in range(npar)]
    for t in pths:
        t.start()
    for t in pths:
        t.join(60)
    tr.append(("parallel", [[tuple(x) for x in seen] for seen in ch.receive(60)]))
    nbytes += npar * nper * psize
    sub = ch.receive(60)
    k = rng.choice((0, 3, 40))
    for i in range(k):
        sub.send(("cb", i))
    sub.close()
    ch.send("go")
    tr.append(("callback-log", ch.receive(60)))
    try:
        ch.receive(60)
        tr.append("no-error")
    except RemoteError as e:
        tr.append(("RemoteError", "ValueError" in str(e), "bulk-final-error" in str(e)))
    try:
        ch.receive(10)
    except EOFError:
        tr.append("EOF")
    except BaseException as e:  # noqa
        tr.append(type(e).__name__)
    want = [(len(x), hashlib.sha1(x).hexdigest(), hashlib.sha1(x[::-1]).hexdigest(), len(x)) for x in items]
    want.append(("burst-in", [(sz, hashlib.sha1(bytes([sz % 251]) * sz).hexdigest()) for sz in burst]))
    want.append(("burst-out", [(sz, hashlib.sha1(bytes([sz % 199]) * sz).hexdigest()) for sz in burst]))
    want.append(("parallel", [[(psize + s, hashlib.sha1(bytes([65 + t]) * (psize + s)).hexdigest()) for s in range(nper)] for t in range(npar)]))
    want.append(("callback-log", [("cb", i) for i in range(k)] + ["<end>"]))
    want += [("RemoteError", True, True), "EOF"]
    return tr, want, nbytes


def run_programs_on(res, gw, rng_seed, n, label, big):
    """runs the seeded program list on gw; returns list of normalised observed transcripts"""
    import random

    rng = random.Random(rng_seed)
    g = values.Gen(rng, max_bytes=3000, huge_ints=False, max_depth=4)
    out = []
    for i in range(n):
        prog = dsl.gen_program(rng, g)
        prog["stmts"] = [s for s in prog["stmts"] if s[0] not in ("kwarg",)]
        src, _ = dsl.render_string(prog)
        ch = gw.remote_exec(src)
        obs = dsl.drive(prog, ch, timeout=30)
        try:
            ch.waitclose(20)
        except BaseException:
            pass
        res.count("programs")
        diff = dsl.compare(obs, dsl.predict(prog))
        if diff:
            res.violation(f"transcript-differs-from-prediction:{label}", f"program #{i} {short(prog['stmts'], 200)}: {diff}")
        # normalise: RemoteError text -> type+message presence only
        norm = []
        for o in obs:
            if isinstance(o, tuple) and o and o[0] == "RemoteError":
                st = next(s for s in prog["stmts"] if s[0] == "raise")
                norm.append(("RemoteError", st[1] in o[1], st[2] in o[1]))
            else:
                norm.append(o)
        out.append(norm)
    out.append(callback_error_program(res, gw, label))
    out.append(stderr_volume_program(res, gw, label))
    tr, want, nbytes = run_bulk(gw, rng, big)
    res.count("bulk_bytes", nbytes)
    if tr != want:
        j = next((k for k, (a, b) in enumerate(zip(tr, want)) if a != b), min(len(tr), len(want)))
        res.violation(f"bulk-transcript-differs:{label}", f"entry {j}: {short(tr[j:j + 1])} != {short(want[j:j + 1])}")
    out.append(tr)
    return out


CALLBACK_ERROR = r"""
sub = channel.gateway.newchannel()
other = channel.gateway.newchannel()
seen = []
def cb(item):
    seen.append(item)
    if item == "bad":
        raise ValueError("callback-error-42")
sub.setcallback(cb)
channel.send((sub, other))
channel.receive()
other.send(("other channel still works", seen))
channel.send("exec channel still works")
"""


STDERR_VOLUME = r"""
import os, sys
for i in range(channel.receive()):
    os.write(2, b"." * 20000 + b"\n")
    sys.stderr.write("e" * 2000 + "\n")
    channel.send(("answer", i))
"""


def stderr_volume_program(res, gw, label):
    """remote code that is chatty on its standard error (several hundred KB over its lifetime): wherever that output ends up,
    the channel program goes on - the same on every way of reaching a worker"""
    tr = []
    try:
        ch = gw.remote_exec(STDERR_VOLUME)
        ch.send(12)
        for i in range(12):
            tr.append(ch.receive(20))
        ch.waitclose(20)
        tr.append("closed")
    except BaseException as e:  # noqa
        tr.append(type(e).__name__)
    res.count("stderr_volume_programs")
    want = [("answer", i) for i in range(12)] + ["closed"]
    if tr != want:
        res.violation(f"program-stalls-on-stderr-volume:{label}", f"{short(tr[-3:], 200)} after {len(tr)} of {len(want)} steps")
    return tr


def callback_error_program(res, gw, label):
    """a receiver callback registered by the remote code fails: only that channel ends (with the error), everything else
    of the gateway goes on - the same on every way of reaching a worker"""
    from execnet.gateway_base import RemoteError

    tr = []
    try:
        ch = gw.remote_exec(CALLBACK_ERROR)
        sub, other = ch.receive(20)
        sub.send("fine")
        sub.send("bad")
        try:
            sub.waitclose(20)
            tr.append("sub closed without error")
        except RemoteError as e:
            tr.append(("RemoteError", "ValueError" in str(e), "callback-error-42" in str(e)))
        except BaseException as e:  # noqa
            tr.append(type(e).__name__)
        ch.send(None)
        for c in (other, ch):
            try:
                tr.append(c.receive(20))
            except BaseException as e:  # noqa
                tr.append(type(e).__name__)
        try:
            tr.append(gw.remote_exec("channel.send(6 * 7)").receive(20))
        except BaseException as e:  # noqa
            tr.append(type(e).__name__)
    except BaseException as e:  # noqa
        tr.append(f"{type(e).__name__}")
    res.count("remote_callback_error_programs")
    want = [("RemoteError", True, True), ("other channel still works", ["fine", "bad"]), "exec channel still works", 42]
    if tr != want:
        res.violation(f"remote-callback-failure-handled-differently:{label}", f"{short(tr, 300)} != {short(want, 300)}")
    return tr


class SlowSock:
    """Perturbs the initiator's socket reads the way a real network may: large recv() calls are sometimes delayed a little
    (more of the peer's bytes are buffered when the call is made) and sometimes return fewer bytes than asked for."""

    def __init__(self, sock, rng):
        self._sock = sock
        self._rng = rng

    def _shape(self, n):
        if n > 4096:
            k = self._rng.random()
            if k < 0.3:
                time.sleep(self._rng.choice((0.001, 0.01, 0.03)))
            elif k < 0.7:
                return min(n, self._rng.choice((1000, 1 << 16, n // 2 + 1)))
        return n

    virtual_idle = 0.0

    def _silence(self):
        """virtual time: `virtual_idle` seconds pass without a byte from the peer before this read.  A socket that was
        left with a timeout shorter than that reports it, exactly as the kernel would after waiting that long; a blocking
        socket (or code that retries after a timeout) just goes on."""
        idle, self.virtual_idle = self.virtual_idle, 0.0
        if idle:
            t = self._sock.gettimeout()
            if t is not None and idle >= t:
                raise TimeoutError("timed out")

    def recv(self, n):
        self._silence()
        return self._sock.recv(self._shape(n))

    def recv_into(self, buf, nbytes=0):
        self._silence()
        n = nbytes or len(buf)
        return self._sock.recv_into(buf, self._shape(n))

    def __getattr__(self, name):
        return getattr(self._sock, name)


BACKLOG_TASK = """
import time
fin = channel.gateway.execmodel.Event()
answers = channel.receive()

def consume(item):
    if item is None or item == "END":
        fin.set()
        return
    time.sleep(0.06)  # slow consumer (about 2 s for the backlog): the receiver thread is busy, data piles up on the way
    answers.send((item[:1], len(item)))

channel.setcallback(consume, endmarker=None)
fin.wait()
answers.send("finished")
"""


def run_config(spec):
    import execnet

    res = Result()
    label = f"{spec['transport']}/{spec['model']}"
    big = (1 << 20) if spec["tier"] == "quick" else (4 << 20)
    group = execnet.Group()
    try:
        gw = make_gateway(group, spec["transport"], spec["model"])
        if spec["transport"] == "socket":
            import random

            gw._io.sock = SlowSock(gw._io.sock, random.Random(spec["seed"]))
        st = gw.remote_status()
        if st.execmodel != spec["model"]:
            res.violation(f"worker-execmodel-wrong:{label}", st.execmodel)
        seed = core.case_seed("C16", spec["tier"], spec["seed"])  # the SAME programs on every configuration
        trs = run_programs_on(res, gw, seed, spec["n"], label, big)
        if not gw.hasreceiver():
            res.violation(f"gateway-lost:{label}", "")
        if spec["transport"] == "socket":
            # an idle gateway stays connected however long nothing is said (one hour of virtual silence on the socket)
            for rnd in range(3):
                gw._io.sock.virtual_idle = 3600.0
                try:
                    gw.remote_exec("channel.send(channel.receive() + 1)").send(rnd)
                except OSError as e:
                    res.violation(f"socket-gateway-ended-by-silence:{label}", f"round {rnd}: {e}")
                    break
                time.sleep(0.05)
            try:
                ok = gw.remote_exec("channel.send(41 + 1)").receive(15)
            except BaseException as e:  # noqa
                ok = f"{type(e).__name__}: {e}"
            res.count("virtual_hours_of_silence_on_socket", 3)
            if ok != 42 or not gw.hasreceiver():
                res.violation(f"socket-gateway-ended-by-silence:{label}", f"after an hour without traffic: {ok}")
        # gateway.exit() while a remote task is still running: what it sends afterwards is still delivered, then EOF
        late = gw.remote_exec("import time\nsub = channel.gateway.newchannel()\nchannel.send(sub)\ntime.sleep(0.3)\n"
                              "for i in range(3):\n    sub.send(('late-sub', i))\nchannel.send('late-item')\nchannel.send('bye')\n")
        lsub = late.receive(30)
        # ... and what was sent *to* the worker before exit() is still processed there: a backlog of items larger than a
        # pipe for a slow consumer, the exit request right behind it (it must not overtake the data anywhere on the way)
        NB, SB = (30, 80 * 1024)
        backlog = gw.remote_exec(BACKLOG_TASK)
        answers = gw.newchannel()
        backlog.send(answers)
        for i in range(NB):
            backlog.send(bytes([i]) * SB)
        backlog.send("END")
        gw.exit()
        drained = []
        for c in (late, lsub, answers):
            part = []
            try:
                while True:
                    part.append(c.receive(20))
            except EOFError:
                part.append("EOF")
            except BaseException as e:  # noqa
                part.append(type(e).__name__)
            drained.append(part)
        want_late = [["late-item", "bye", "EOF"], [("late-sub", 0), ("late-sub", 1), ("late-sub", 2), "EOF"]]
        if drained[:2] != want_late:
            res.violation(f"items-sent-after-exit-request-lost:{label}", f"{drained[:2]} != {want_late}")
        want_answers = [(bytes([i]), SB) for i in range(NB)] + ["finished", "EOF"]
        if drained[2] != want_answers:
            res.violation(f"items-sent-before-exit-request-not-processed:{label}",
                          f"{len([a for a in drained[2] if isinstance(a, tuple)])} of {NB} items were answered; tail {short(drained[2][-3:])}")
        res.count("backlog_items_before_exit", NB)
        trs.append(drained)
        res.count("configs")
        res.case(core.h64("config", label))
        res.case(core.h64("config-programs", label, spec["n"]))
        res.info.setdefault("transcript_digests", {})[label] = core.h64(repr(trs))
        res.sample({"config": label, "programs": spec["n"], "transcript_digest": core.h64(repr(trs))})
    except BaseException as e:
        res.violation(f"config-run-raised:{label}:{type(e).__name__}", str(e)[-300:])
    finally:
        group.terminate(3.0)
    return res


def run_cross(spec):
    """all transports in one process: transcripts compared pairwise with popen"""
    import execnet

    res = Result()
    seed = core.case_seed("C16x", spec["tier"], spec["seed"])
    group = execnet.Group()
    base = None
    try:
        for t in TRANSPORTS:
            gw = make_gateway(group, t, "thread")
            trs = run_programs_on(res, gw, seed, spec["n"], f"cross-{t}", 300000)
            res.case(core.h64("cross", t))
            if base is None:
                base = trs
            elif trs != base:
                j = next((k for k, (a, b) in enumerate(zip(trs, base)) if a != b), -1)
                res.violation(f"transport-not-equivalent-to-popen:{t}", f"program #{j}: {short(trs[j], 300)} vs popen {short(base[j], 300)}")
        res.sample({"cross": TRANSPORTS, "programs": spec["n"]})
    except BaseException as e:
        res.violation(f"cross-run-raised:{type(e).__name__}", str(e)[-300:])
    finally:
        group.terminate(3.0)
    return res


CHAIN_TASK = """
channel.send('ready')
try:
    channel.receive()
except EOFError:
    channel.send('cleanup done')   # the gateway is being taken down: the grace period is used to finish
"""


def chain_terminate(res, rep):
    """the termination sequence reaches a proxied process exactly like a direct one - also when that proxied gateway
    itself serves as via= for a further gateway (A <- B via A <- C via B)"""
    import execnet

    observed = {}
    for kind in ("popen", "via", "via_that_proxies", "via_of_a_via"):
        group = execnet.Group()
        try:
            if kind == "popen":
                gw = group.makegateway("popen//id=B")
            else:
                group.makegateway("popen//id=A")
                gw = group.makegateway("popen//via=A//id=B")
                if kind != "via":
                    c = group.makegateway("popen//via=B//id=C")
                    if kind == "via_of_a_via":
                        gw = c
            ch = gw.remote_exec(CHAIN_TASK)
            if ch.receive(20) != "ready":
                raise RuntimeError("task did not start")
            t0 = time.monotonic()
            group.terminate()  # no timeout: nobody is killed, everybody is waited for
            took = time.monotonic() - t0
            items = []
            try:
                while True:
                    items.append(ch.receive(20))
            except EOFError:
                items.append("EOF")
            except BaseException as e:  # noqa
                items.append(type(e).__name__)
            observed[kind] = (items, took < 4.0)  # (the grace period of a worker that was not told to terminate is 5 s)
            res.count("control_checks")
            res.case(core.h64("chain", kind))
        except BaseException as e:  # noqa
            observed[kind] = (f"{type(e).__name__}: {str(e)[-200:]}", False)
        finally:
            try:
                group.terminate(2.0)
            except BaseException:  # noqa
                pass
    want = (["cleanup done", "EOF"], True)
    for kind, got in observed.items():
        if got != want:
            res.violation(f"termination-sequence-differs-from-popen:{kind}", f"rep {rep}: (items, prompt) = {got}, direct popen gives {want}")


def kill_equivalence(res, rep):
    """a worker that dies looks the same from the initiator whatever the transport: what receive(), waitclose(), a later
    send and remote_exec answer on popen is what they answer on a proxied and on a socket gateway"""
    import os
    import signal

    import execnet

    observed = {}
    for kind in ("popen", "via", "socket"):
        group = execnet.Group()
        try:
            if kind == "popen":
                gw = group.makegateway("popen")
            else:
                group.makegateway("popen//id=m")
                gw = group.makegateway("popen//via=m" if kind == "via" else "socket//installvia=m")
            ch = gw.remote_exec("import os\nchannel.send(os.getpid())\nchannel.send('item')\nchannel.receive()")
            other = gw.remote_exec("channel.receive()")
            pid = ch.receive(20)
            if kind == "socket":
                # the socket worker lives in the process of its host gateway: that process is what dies
                pass
            os.kill(pid, signal.SIGKILL)
            obs = []
            for what, fn in (("receive", lambda: ch.receive(20)), ("receive-again", lambda: ch.receive(20)), ("waitclose", lambda: ch.waitclose(20)),
                             ("other-waitclose", lambda: other.waitclose(20)), ("other-receive", lambda: other.receive(20)),
                             # (what the gateway answers "from then on" is asked once its receiver thread has wound up)
                             ("join", lambda: gw.join(10)),
                             ("send", lambda: ch.send(1)), ("remote_exec", lambda: gw.remote_exec("pass")), ("newchannel", gw.newchannel)):
                try:
                    r = fn()
                    obs.append((what, "returned " + (repr(r) if what.startswith("receive") else "")))
                except BaseException as e:  # noqa
                    obs.append((what, type(e).__name__))
            gw.join(10)
            obs.append(("hasreceiver", gw.hasreceiver()))
            # (an item that was still unread when the process died may be lost on TCP - a reset discards it -: what is
            #  compared is how the end of the stream is reported)
            observed[kind] = [o for o in obs if o[0] != "receive"]
            res.count("control_checks")
            res.case(core.h64("kill-equivalence", kind))
        except BaseException as e:  # noqa
            observed[kind] = f"{type(e).__name__}: {str(e)[-200:]}"
        finally:
            try:
                group.terminate(2.0)
            except BaseException:  # noqa
                pass
    for kind in ("via", "socket"):
        if observed.get(kind) != observed.get("popen"):
            diff = [(a, b) for a, b in zip(observed.get(kind) or [], observed.get("popen") or []) if a != b] if isinstance(observed.get(kind), list) else observed.get(kind)
            res.violation(f"killed-worker-looks-different-from-popen:{kind}", f"rep {rep}: {kind} vs popen: {short(diff, 400)}")


def slow_exit_equivalence(res, rep):
    """terminate() without a timeout waits for the process itself, not just for its connection: a worker that takes a while
    to leave (exit handler, non-daemon thread) is gone when terminate() returns - direct or proxied"""
    import execnet

    for kind in ("popen", "via"):
        for how in ("atexit", "nondaemon_thread"):
            group = execnet.Group()
            pid = None
            try:
                if kind == "via":
                    group.makegateway("popen//id=m")
                gw = group.makegateway("popen" + ("//via=m" if kind == "via" else ""))
                body = ("import atexit, os, time\natexit.register(lambda: time.sleep(2.0))\nchannel.send(os.getpid())\n" if how == "atexit" else
                        "import os, threading, time\nthreading.Thread(target=lambda: time.sleep(2.0)).start()\nchannel.send(os.getpid())\n")
                pid = gw.remote_exec(body).receive(20)
                t0 = time.monotonic()
                group.terminate()
                took = time.monotonic() - t0
                alive = procs.alive(pid)
                res.count("control_checks")
                res.case(core.h64("slow-exit", kind, how))
                if alive:
                    res.violation(f"terminate-returned-before-process-exit:{kind}", f"rep {rep}: worker with a 2 s {how} still alive when terminate() returned after {took:.2f}s")
            except BaseException as e:  # noqa
                res.violation(f"control-run-raised:slow_exit:{type(e).__name__}", f"{kind}/{how}: {str(e)[-200:]}")
            finally:
                if pid and procs.alive(pid):
                    procs.wait_gone([pid], 6.0)
                try:
                    group.terminate(2.0)
                except BaseException:  # noqa
                    pass


def run_control(spec):
    """wait / kill / close_write reach the proxied process"""
    import execnet

    res = Result()
    for rep in range(spec["reps"]):
        if rep % 5 == 0:
            chain_terminate(res, rep)
            kill_equivalence(res, rep)
            slow_exit_equivalence(res, rep)
        for action in ("kill", "exit_wait", "close_write", "terminate_hanging", "terminate_hanging_mto"):
            group = execnet.Group()
            try:
                group.makegateway("popen//id=master")
                gw = group.makegateway("popen//via=master")
                ch = gw.remote_exec("import os\nchannel.send(os.getpid())\nchannel.receive()")
                pid = ch.receive(20)
                mpid = group["master"].remote_exec("import os\nchannel.send(os.getpid())").receive(20)
                if pid == mpid or not procs.alive(pid):
                    res.violation("proxied-worker-is-not-its-own-process", f"{pid} {mpid}")
                    continue
                res.count("control_checks")
                res.case(core.h64("control", action))
                io = gw._io
                if action.startswith("terminate_hanging"):
                    # remote code that ignores interrupts: only the kill request sent after the timeout ends it promptly
                    hang_group = execnet.Group()
                    hang_group.makegateway("popen//id=master")
                    model = "main_thread_only" if action.endswith("mto") else "thread"
                    hgw = hang_group.makegateway(f"popen//via=master//execmodel={model}")
                    hch = hgw.remote_exec("import ctypes, os, time\nctypes.CDLL(None).signal(2, 1)\nchannel.send(os.getpid())\nwhile True:\n    time.sleep(0.05)\n")
                    hpid = hch.receive(20)
                    t0 = time.monotonic()
                    hang_group.terminate(1.0)
                    took = time.monotonic() - t0
                    left, dt = procs.wait_gone([hpid], 4.0)
                    res.info.setdefault("terminate_hanging_via_s", {})[f"{action}_{rep}"] = round(took, 2)
                    if left:
                        res.violation("terminate-kill-did-not-reach-proxied-process", f"{action}: pid {hpid} alive {took + dt:.1f}s after terminate(1.0) began (terminate took {took:.1f}s)")
                        try:
                            import os as _os
                            _os.kill(hpid, 9)
                        except OSError:
                            pass
                    continue
                if action == "kill":
                    io.kill()
                    left, dt = procs.wait_gone([pid], 5.0)
                    if left:
                        res.violation("proxy-kill-did-not-reach-process", f"pid {pid} alive 5 s after ProxyIO.kill()")
                    rc = io.wait()
                    if rc is None or rc == 0:
                        res.violation("proxy-wait-status-wrong-after-kill", repr(rc))
                elif action == "exit_wait":
                    ch.send(None)
                    gw.exit()
                    box = []
                    t = threading.Thread(target=lambda: box.append(io.wait()), daemon=True)
                    t.start()
                    t.join(10)
                    if not box:
                        res.violation("proxy-wait-never-returned", "")
                    elif box[0] != 0:
                        res.violation("proxy-wait-status-wrong-after-exit", repr(box[0]))
                    left, dt = procs.wait_gone([pid], 5.0)
                    if left:
                        res.violation("proxied-process-alive-after-exit", str(pid))
                else:
                    io.close_write()
                    left, dt = procs.wait_gone([pid], 20.0)
                    if left:
                        res.violation("proxy-close-write-did-not-end-process", f"pid {pid} alive 20 s after close_write")
                    res.info.setdefault("close_write_exit_latency_s", {})[str(rep)] = round(dt, 2)
                # the master gateway itself stays usable
                try:
                    if group["master"].remote_exec("channel.send(41 + 1)").receive(20) != 42:
                        res.violation("master-disturbed-by-proxy-control", action)
                except BaseException as e:
                    res.violation("master-disturbed-by-proxy-control", f"{action}: {type(e).__name__}: {e}")
            except BaseException as e:
                res.violation(f"control-run-raised:{action}:{type(e).__name__}", str(e)[-300:])
            finally:
                try:
                    group.terminate(3.0)
                except BaseException as e:  # noqa
                    res.violation(f"terminate-raised-after-proxy-control:{action}:{type(e).__name__}", f"rep {rep}: {str(e)[-1200:]}")
    res.sample({"control_actions": ["kill", "exit_wait", "close_write"], "reps": spec["reps"]})
    return res


def finalize(info, counters):
    """the same seeded programs ran on every configuration: all transcript digests must coincide"""
    d = info.get("transcript_digests", {})
    out = []
    if d:
        ref = d.get("popen/thread")
        for label, dg in sorted(d.items()):
            if ref is not None and dg != ref:
                out.append((f"configuration-transcripts-differ-from-popen-thread:{label}", f"{label}: {dg} vs popen/thread {ref}"))
    return out
