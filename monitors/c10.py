"""C10 - callback receivers see every item once, in order, then one endmarker."""

from __future__ import annotations

import gc
import threading
import time

from ref import codec
from vlib import core
from vlib.core import Result
from vlib.core import short

ID = "C10"
LEVEL = "exploration"
RULE = ("generated callback histories: the peer sends n in 0..30 unique items and ends by close / close(error) / end of the remote_exec / "
        "connection loss (scripted peer closes the connection at a frame boundary or inside a frame); setcallback(cb, endmarker|none) is "
        "called before any item, after exactly j items are queued, after the close arrived, or concurrently with the traffic; callback on "
        "the initiating or on the worker side; optionally the channel object is dropped right after registration; plus MultiChannel receive "
        "queues over 2-4 gateways. Schedules: sync-point perturbation, line noise, PCT stalls, single-pre-emption sweep over setcallback, "
        "_local_receive, _local_close, _no_longer_opened, _finished_receiving, _thread_receiver. distinct = distinct (history, schedule) cases")
ASSUMPTIONS = ["an endmarker not delivered within 6 s after the stream ended counts as never delivered"]
MINIMUM = {"histories": 400, "callback_invocations": 3000, "sweep_fired": 80, "connection_loss_histories": 40}
SHARD_TIMEOUT = {"quick": 120, "thorough": 2400}

ENDINGS = ["close", "close_error", "end_of_exec", "end_of_exec_eoferror", "connection_loss", "last_message"]
WHENS = ["before", "after_j", "after_close", "concurrent", "after_receive_to_end"]


def shards(tier, seed):
    out = []
    n = 9 if tier == "quick" else 18
    for i in range(n):
        out.append({"kind": "random", "mode": ("sync", "noise", "pct")[i % 3], "runs": 80 if tier == "quick" else 10000,
                    "transport": ("pipe", "tcp")[i % 2]})
    nsw = 6 if tier == "quick" else 12
    for i in range(nsw):
        out.append({"kind": "sweep", "part": i, "parts": nsw, "ks": [1, 2] if tier == "quick" else [1, 2, 3, 5]})
    out.append({"kind": "multi", "runs": 12 if tier == "quick" else 1500})
    for sp in ("popen", "via", "socket"):
        out.append({"kind": "real_ends", "spec": sp, "runs": 2 if tier == "quick" else 40})
    return out


def gen_history(rng, ending=None):
    ending = ending or rng.choice(ENDINGS)
    n = rng.choice((0, 1, 2, 5, 12, 30))
    h = {"ending": ending, "n": n, "when": rng.choice(WHENS), "endmarker": rng.random() < 0.75, "em": rng.randrange(len(ENDMARKERS)),
         "close_in_callback": rng.random() < 0.3,
         "drop_ref": rng.random() < 0.25, "cbside": "local" if ending in ("end_of_exec", "end_of_exec_eoferror", "connection_loss") else rng.choice(("local", "remote")),
         "j": n if rng.random() < 0.3 else rng.randint(0, n), "cut_inside_frame": rng.random() < 0.5}
    return h


E = ("__endmarker__",)
ENDMARKERS = [E, None, 0, False, "", (), -1, "end"]  # any object may serve as endmarker, None and falsy ones included


def check_callback_log(res, h, got, label, m):
    n = h["n"]
    hid = h["hid"]
    E = ENDMARKERS[h.get("em", 0)]
    isend = lambda g: g is E or (type(g) is type(E) and g == E and not isinstance(g, tuple)) or (isinstance(E, tuple) and g == E)
    got = [("<<END>>",) if isend(g) else g for g in got]
    E = ("<<END>>",)
    items = [g for g in got if g != E]
    res.count("callback_invocations", len(got))
    seqs = [g[1] for g in items if isinstance(g, tuple) and len(g) == 2 and g[0] == hid]
    if len(seqs) != len(items):
        res.violation(m("callback-got-foreign-item"), f"{label}: {short(items[:4])}")
    if seqs != list(range(n)):
        missing = sorted(set(range(n)) - set(seqs))
        dups = sorted({s for s in seqs if seqs.count(s) > 1})
        if dups:
            res.violation(m("callback-item-duplicated"), f"{label}: {dups[:5]} seqs={seqs[:40]}")
        elif missing:
            res.violation(m("callback-item-missing"), f"{label}: missing {missing[:5]} of {n}; got {len(seqs)}")
        else:
            res.violation(m("callback-order-wrong"), f"{label}: {seqs[:40]}")
    ne = got.count(E)
    if h["endmarker"]:
        if ne == 0:
            res.violation(m("endmarker-never-delivered"), f"{label}: items {len(items)}/{n}")
        elif ne > 1:
            res.violation(m("endmarker-delivered-twice"), f"{label}: {ne} times")
        elif got[-1] != E:
            res.violation(m("endmarker-not-last"), f"{label}: {short(got[-4:])}")
    elif ne:
        res.violation(m("endmarker-delivered-although-not-requested"), label)


def run_history(res: Result, lab, h, label):
    """close / close_error / end_of_exec endings on a Lab"""
    ending = h["ending"]
    hid = h["hid"]
    m = lambda name: f"{name}:{ending}:{h['when']}"
    fin = None
    if ending == "end_of_exec":
        lc, rc, fin = lab.pair_remote_exec()
        S, R = rc, lc
    elif ending == "end_of_exec_eoferror":
        # the remote execution ends with an uncaught EOFError of its own (it read past the end of something)
        def _raise_eof(channel):
            raise EOFError("body ran into the end of something")

        lc, rc, fin = lab.pair_remote_exec(at_end=_raise_eof)
        S, R = rc, lc
    else:
        lc, rc = lab.pair_newchannel_local() if hid % 2 else lab.pair_newchannel_remote()
        S, R = (rc, lc) if h["cbside"] == "local" else (lc, rc)
    del lc, rc
    got: list = []
    n, j = h["n"], h["j"]
    holder = [R]
    del R
    api = {}
    E = ENDMARKERS[h.get("em", 0)]
    if ending == "last_message":
        # the sending side itself receives by callback and will simply drop its channel object at the end
        S.setcallback(lambda x: None)
    sender_holder = [S]

    def cb(item):
        got.append(item)
        if h.get("close_in_callback") and (item is E) and holder:
            # a callback may close its channel when it sees the end of the stream
            try:
                holder[0].close()
            except Exception as e:  # noqa
                got.append(("close-raised", repr(e)))

    def register():
        lab.sched.set_role("setcb")
        ch = holder[0]
        if h["endmarker"]:
            ch.setcallback(cb, endmarker=E)
        else:
            ch.setcallback(cb)
        # from now on receive() and a second registration are refused
        try:
            ch.receive(0.01)
            api["receive"] = "returned"
        except OSError as e:
            api["receive"] = "OSError" if type(e).__name__ != "TimeoutError" else "TimeoutError"
        except BaseException as e:  # noqa
            api["receive"] = type(e).__name__
        try:
            ch.setcallback(lambda x: None)
            api["second"] = "accepted"
        except OSError:
            api["second"] = "OSError"
        except BaseException as e:  # noqa
            api["second"] = type(e).__name__
        del ch
        if h["drop_ref"]:
            holder.clear()
            gc.collect()

    def send(lo, hi):
        for s in range(lo, hi):
            sender_holder[0].send((hid, s))

    def end():
        if ending == "close":
            S.close()
        elif ending == "close_error":
            S.close("deliberate")
        elif ending == "last_message":
            sender_holder.clear()
        else:
            fin.set()

    if ending == "last_message":
        del S
    when = h["when"]
    pre_received: list = []
    try:
        if when == "before":
            register()
            send(0, n)
            end()
            gc.collect()
        elif when == "after_j":
            send(0, j)
            q = holder[0]._items
            t0 = time.monotonic()
            while q is not None and q.qsize() < j and time.monotonic() - t0 < 5:
                time.sleep(0.0005)
            register()
            send(j, n)
            end()
            gc.collect()
        elif when == "after_close":
            send(0, n)
            end()
            gc.collect()
            try:
                holder[0].waitclose(6)
            except Exception:
                pass
            register()
        elif when == "after_receive_to_end":
            # the user first reads the whole stream with receive(), sees how it ended, and only then attaches a callback:
            # nothing is left but the end of the stream, which the callback must still be told
            send(0, n)
            end()
            gc.collect()
            try:
                while True:
                    pre_received.append(holder[0].receive(10))
            except (EOFError, holder[0].RemoteError):
                pass
            register()
        else:
            t = threading.Thread(target=register, daemon=True)
            sender = threading.Thread(target=lambda: (lab.sched.set_role("snd"), send(0, n), end()), daemon=True)
            sender.start()
            t.start()
            sender.join(10)
            t.join(10)
            if sender.is_alive() or t.is_alive():
                res.violation(m("setcallback-or-send-blocked"), label)
                return
    except OSError as e:
        # a dropped callback-side channel makes the peer's later sends fail only if it was closed; report anything else
        res.violation(m(f"history-raised-{type(e).__name__}"), f"{label}: {e}")
        return
    # wait for the end of the stream as the callback sees it
    from vlib import pairs

    gc.collect()
    if h["endmarker"]:
        pairs.wait_until(lambda: any(g is E for g in got), 15.0)
    else:
        pairs.wait_until(lambda: len(pre_received) + len(got) >= n, 15.0)
        time.sleep(0.002)
    bad = [g for g in got if isinstance(g, tuple) and g and g[0] == "close-raised"]
    if bad:
        res.violation(m("close-inside-endmarker-callback-raised"), f"{label}: {bad[0]}")
    check_callback_log(res, h, pre_received + [g for g in got if g not in bad], label, m)
    if api.get("receive") != "OSError":
        res.violation(m("receive-after-setcallback-not-refused"), f"{label}: {api.get('receive')}")
    if api.get("second") != "OSError":
        res.violation(m("second-setcallback-not-refused"), f"{label}: {api.get('second')}")
    res.count("histories")


def run_loss_history(res: Result, h, label, pre_setup=None):
    """connection loss: the harness is the peer"""
    from vlib import pairs

    hid = h["hid"]
    m = lambda name: f"{name}:connection_loss:{h['when']}"
    sp = pairs.ScriptedPeer(tee=False, transport="pipe" if hid % 2 else "tcp")
    try:
        ch = sp.gw.newchannel()
        cid = ch.id
        got: list = []
        n, j = h["n"], h["j"]
        frames = [codec.frame(codec.MSG["CHANNEL_DATA"], cid, codec.encode((hid, s), versioned=False)) for s in range(n)]
        tail = b""
        if h["cut_inside_frame"]:
            full = codec.frame(codec.MSG["CHANNEL_DATA"], cid, codec.encode((hid, 999999), versioned=False))
            tail = full[: 1 + hid % (len(full) - 1)]
        holder = [ch]
        del ch

        E = ENDMARKERS[h.get("em", 0)]

        def register():
            c = holder[0]
            if h["endmarker"]:
                c.setcallback(got.append, endmarker=E)
            else:
                c.setcallback(got.append)
            del c
            if h["drop_ref"]:
                holder.clear()
                gc.collect()

        if pre_setup:
            pre_setup()
        # another thread asks for a new channel and listens on it while the connection is going away: either it is told
        # that the gateway is gone (OSError) or its callback gets the endmarker like everybody else's
        late_got: list = []
        late_state: list = []

        def late():
            time.sleep((hid % 5) * 0.002)
            try:
                c2 = sp.gw.newchannel()
            except OSError:
                late_state.append("refused")
                return
            try:
                c2.setcallback(late_got.append, endmarker="<late-end>")
                late_state.append("listening")
            except OSError:
                late_state.append("closed-before-listening")

        lt = threading.Thread(target=late, daemon=True)
        lt.start()
        when = h["when"]
        pre_received: list = []
        if when == "before":
            register()
            sp.feed(b"".join(frames) + tail)
            sp.close_peer()
        elif when == "after_j":
            sp.feed(b"".join(frames[:j]))
            q = holder[0]._items
            pairs.wait_until(lambda: q.qsize() >= j, 5)
            register()
            sp.feed(b"".join(frames[j:]) + tail)
            sp.close_peer()
        elif when == "after_close":
            sp.feed(b"".join(frames) + tail)
            sp.close_peer()
            try:
                holder[0].waitclose(6)
            except BaseException:
                pass
            register()
        elif when == "after_receive_to_end":
            sp.feed(b"".join(frames) + tail)
            sp.close_peer()
            try:
                while True:
                    pre_received.append(holder[0].receive(10))
            except (EOFError, holder[0].RemoteError):
                pass
            register()
        else:
            sp.feed(b"".join(frames[:j]))
            t = threading.Thread(target=register, daemon=True)
            t.start()
            sp.feed(b"".join(frames[j:]) + tail)
            sp.close_peer()
            t.join(10)
            if t.is_alive():
                res.violation(m("setcallback-blocked"), label)
                return
        if h["endmarker"]:
            pairs.wait_until(lambda: any(g is E for g in got), 15.0)
        else:
            pairs.wait_until(lambda: len(pre_received) + len(got) >= n, 15.0)
            time.sleep(0.002)
        check_callback_log(res, h, pre_received + list(got), label, m)
        lt.join(10)
        if late_state == ["listening"]:
            pairs.wait_until(lambda: late_got, 15.0)
            time.sleep(0.002)
            res.count("late_listeners_on_a_dying_connection")
            if late_got != ["<late-end>"]:
                res.violation(m("endmarker-never-delivered-to-late-channel" if not late_got else "late-channel-callback-log-wrong"),
                              f"{label}: a channel made while the connection was ending got {late_got!r}")
        elif not late_state:
            res.violation(m("newchannel-or-setcallback-blocked"), label)
        res.count("histories")
        res.count("connection_loss_histories")
    finally:
        sp.shutdown(3)


REAL_BODY = """
import os, time
subs = [channel.gateway.newchannel() for _ in range(2)]
channel.send((os.getpid(), subs))
for i in range(5):
    channel.send(("item", i))
    for k, s in enumerate(subs):
        s.send((k, i))
time.sleep(600)
"""


def run_real_ends(spec):
    """real workers (direct, proxied, socket) whose connection ends while callbacks and MultiChannel queues are listening:
    the process is killed, the gateway is exit()ed, the group is terminated"""
    import os
    import signal

    import execnet
    from vlib import pairs

    res = Result()
    rng = core.rng_for("C10r", spec["tier"], spec["seed"], spec["spec"])
    for run in range(spec["runs"]):
        for ending in ("kill", "exit", "terminate", "kill_master"):
            if ending == "kill_master" and spec["spec"] == "popen":
                continue
            group = execnet.Group()
            label = f"real {spec['spec']} ended by {ending}"
            try:
                if spec["spec"] == "popen":
                    gw = group.makegateway("popen")
                else:
                    group.makegateway("popen//id=m")
                    gw = group.makegateway("socket//installvia=m" if spec["spec"] == "socket" else "popen//via=m")
                E = ENDMARKERS[rng.randrange(len(ENDMARKERS))]
                ch = gw.remote_exec(REAL_BODY)
                pid, subs = ch.receive(30)
                got: list = []
                ch.setcallback(got.append, endmarker=E)
                mc = execnet.MultiChannel(subs)
                q = mc.make_receive_queue(endmarker=E)
                pairs.wait_until(lambda: len(got) >= 5, 20.0)
                if ending == "kill":
                    os.kill(pid, signal.SIGKILL)
                elif ending == "kill_master":
                    os.kill(group["m"].remote_exec("import os\nchannel.send(os.getpid())").receive(20), signal.SIGKILL)
                elif ending == "exit":
                    gw.exit()
                else:
                    group.terminate(2.0)
                isend = lambda g: g is E or (not isinstance(g, tuple) and type(g) is type(E) and g == E) or (isinstance(E, tuple) and g == E)
                pairs.wait_until(lambda: any(isend(g) for g in got), 20.0)
                want = [("item", i) for i in range(5)]
                items = [g for g in got if not isend(g)]
                ends = [g for g in got if isend(g)]
                res.count("histories")
                res.count("real_end_histories")
                res.case(core.h64("real_ends", spec["spec"], ending, run))
                if items != want or len(ends) != 1 or not isend(got[-1]):
                    res.violation(f"endmarker-never-delivered:real-{spec['spec']}:{ending}" if not ends else f"callback-log-wrong:real-{spec['spec']}:{ending}",
                                  f"{label}: callback saw {short(got, 200)}")
                qgot = []
                t0 = time.monotonic()
                while time.monotonic() - t0 < 20 and sum(1 for c_, o in qgot if isend(o)) < 2:
                    try:
                        qgot.append(q.get(timeout=0.2))
                    except Exception:  # noqa
                        pass
                for k, sub in enumerate(subs):
                    mine = [o for c_, o in qgot if c_ is sub]
                    if [o for o in mine if not isend(o)] != [(k, i) for i in range(5)] or sum(1 for o in mine if isend(o)) != 1 or not isend(mine[-1]):
                        res.violation(f"multichannel-queue-wrong:real-{spec['spec']}:{ending}", f"{label}: member {k} saw {short(mine, 200)}")
            except BaseException as e:  # noqa
                res.violation(f"real-ends-raised:{spec['spec']}:{type(e).__name__}", f"{label}: {str(e)[-300:]}")
            finally:
                try:
                    group.terminate(2.0)
                except BaseException:  # noqa
                    pass
    return res


def run_shard(spec):
    if spec["kind"] == "multi":
        return run_multi(spec)
    if spec["kind"] == "real_ends":
        return run_real_ends(spec)
    from execnet import gateway_base as gb
    from vlib import chanlab
    from vlib import imodel

    res = Result()
    rng = core.rng_for("C10", spec["tier"], spec["seed"], spec["shard"])
    pre = imodel.Preempt(core.REPO_SRC)
    pre.install()
    hid = 0
    lab = None

    def fresh_lab(transport, **kw):
        nonlocal lab
        if lab is not None:
            res.sig(lab.sched.signature()[:4000])
            lab.close()
        lab = chanlab.Lab(transport, rng.getrandbits(32), **kw)

    try:
        if spec["kind"] == "random":
            for i in range(spec["runs"]):
                if res.enough():
                    break
                h = gen_history(rng)
                hid += 1
                h["hid"] = hid
                mode = spec["mode"]
                label = f"mode={mode} transport={spec['transport']} history={h}"
                if lab is None or i % 12 == 0:
                    fresh_lab(spec["transport"])
                if mode == "noise":
                    pre.set_noise(rng.getrandbits(32), rng.choice((0.02, 0.1)))
                elif mode == "pct":
                    pre.set_pct(rng.getrandbits(32), 2500, rng.choice((1, 2, 3)), stall=0.02)
                _t0 = time.monotonic()
                try:
                    if h["ending"] == "connection_loss":
                        run_loss_history(res, h, label)
                    else:
                        run_history(res, lab, h, label)
                    if time.monotonic() - _t0 > 2 and len(res.info.setdefault("slow_histories", [])) < 5:
                        res.info["slow_histories"].append((round(time.monotonic() - _t0, 1), short(h, 300)))
                except BaseException as e:
                    res.violation(f"history-raised:{type(e).__name__}:{h['ending']}", f"{label}: {e}")
                    lab = None
                pre.off()
                res.case(core.h64(mode, repr(h), i))
                if i < 2:
                    res.sample(h)
        else:
            lines = imodel.function_lines(gb.Channel.setcallback, gb.ChannelFactory._local_receive, gb.ChannelFactory._local_close,
                                          gb.ChannelFactory._no_longer_opened, gb.ChannelFactory._finished_receiving,
                                          gb.BaseGateway._thread_receiver, gb.Channel.close, gb.Channel.__del__, gb.ChannelFactory.new)
            res.info["sweep_lines"] = len(lines)
            targets = [(ln, k, ending) for ln in lines for k in spec["ks"] for ending in ENDINGS]
            targets = [t for i, t in enumerate(targets) if i % spec["parts"] == spec["part"]]
            for nrun, ((fn, ln), k, ending) in enumerate(targets):
                if res.enough():
                    break
                h = gen_history(rng, ending)
                h["when"] = rng.choice(("concurrent", "concurrent", "after_j"))
                h["n"] = rng.choice((1, 3, 6))
                # j == n: everything is queued when setcallback starts draining, the end of the stream arrives meanwhile
                h["j"] = h["n"] if rng.random() < 0.5 else rng.randint(0, h["n"])
                h["endmarker"] = True
                hid += 1
                h["hid"] = hid
                label = f"sweep line={ln} k={k} history={h}"
                if ending != "connection_loss" and (lab is None or nrun % 10 == 0):
                    fresh_lab("pipe", p_yield=0.1, p_sleep=0.0)
                try:
                    if ending == "connection_loss":
                        def arm():
                            pre.restart()
                            pre.set_sweep(fn, ln, k, stall=0.03)
                        run_loss_history(res, h, label, pre_setup=arm)
                    else:
                        pre.restart()
                        pre.set_sweep(fn, ln, k, stall=0.03)
                        run_history(res, lab, h, label)
                except BaseException as e:
                    res.violation(f"history-raised:{type(e).__name__}:{ending}", f"{label}: {e}")
                    lab = None
                pre.off()
                if pre.fired:
                    res.count("sweep_fired")
                res.case(core.h64("sweep", ln, k, repr(h)))
            res.sample({"sweep_targets": len(targets), "lines": len(lines)})
        if lab is not None:
            res.sig(lab.sched.signature()[:4000])
            lab.close()
    finally:
        pre.uninstall()
    return res


def run_multi(spec):
    import execnet
    from vlib import chanlab

    res = Result()
    rng = core.rng_for("C10m", spec["tier"], spec["seed"], spec["shard"])
    for run in range(spec["runs"]):
        G = rng.choice((2, 3, 4))
        labs = [chanlab.Lab(rng.choice(("pipe", "tcp")), rng.getrandbits(32)) for _ in range(G)]
        try:
            ends = [lab.pair_remote_exec() for lab in labs]
            mc = execnet.MultiChannel([lc for lc, rc, fin in ends])
            want_end = rng.random() < 0.8
            em = rng.randrange(len(ENDMARKERS))
            E = ENDMARKERS[em]
            counts = [rng.choice((0, 1, 5, 25)) for _ in range(G)]
            # the queue is asked for before anything was sent - or only after the members have sent everything and their
            # executions have ended (closed members that still hold their items)
            late_queue = rng.random() < 0.5
            if not late_queue:
                q = mc.make_receive_queue(endmarker=E) if want_end else mc.make_receive_queue()

            def send(g):
                for s in range(counts[g]):
                    ends[g][1].send((g, s))
                ends[g][2].set()

            ths = [threading.Thread(target=send, args=(g,), daemon=True) for g in range(G)]
            for t in ths:
                t.start()
            for t in ths:
                t.join(10)
            if late_queue:
                from vlib import pairs

                pairs.wait_until(lambda: all(lc.isclosed() for lc, rc, fin in ends), 10.0)
                res.count("receive_queues_made_after_the_members_closed")
                q = mc.make_receive_queue(endmarker=E) if want_end else mc.make_receive_queue()
            got = []
            expect = sum(counts) + (G if want_end else 0)
            t0 = time.monotonic()
            while len(got) < expect and time.monotonic() - t0 < 6:
                try:
                    got.append(q.get(timeout=0.2))
                except Exception:
                    pass
            try:
                while True:
                    got.append(q.get(timeout=0.02))
            except Exception:
                pass
            label = f"multichannel G={G} counts={counts} endmarker={want_end} queue made {'after the members closed' if late_queue else 'first'}"
            for g, (lc, rc, fin) in enumerate(ends):
                mine = [obj for chan, obj in got if chan is lc]
                h = {"n": counts[g], "hid": g, "endmarker": want_end, "em": em}
                check_callback_log(res, h, mine, label, lambda n_: f"{n_}:multichannel")
            if mc.make_receive_queue(E) is not q:
                res.violation("make-receive-queue-not-idempotent", label)
            res.count("histories")
            res.count("multichannel_runs")
            res.case(core.h64("multi", run, G, tuple(counts), want_end))
        except BaseException as e:
            res.violation(f"multichannel-raised:{type(e).__name__}", str(e)[-300:])
        finally:
            for lab in labs:
                lab.close()
    res.sample({"multichannel_runs": spec["runs"]})
    return res
