"""C07 - remote failures surface as RemoteError on that channel only."""

from __future__ import annotations

import gc
import sys
import threading
import time

from vlib import core
from vlib.core import Result
from vlib.core import short

ID = "C07"
LEVEL = "exploration"
RULE = ("generated failure programs: an item stream with a failure at position p - the remote body raises (builtin / user-defined / "
        "SystemExit / unicode and multi-line messages), a callback raises on the initiating side, a callback raises on the worker side; the "
        "failing side's channel object alive or already dropped; 2-3 sibling echo channels active; the peer consumes by receive or by "
        "waitclose first. In-process pairs (pipe/TCP, schedule perturbation, line noise, sweep over _local_receive/_local_close/executetask) "
        "and real popen/socket/via workers. distinct = distinct (program, schedule) cases")
ASSUMPTIONS = ["KeyboardInterrupt in remote bodies is outside this property (C11/C14 territory)"]
MINIMUM = {"programs": 300, "remoteerrors_checked": 250, "sibling_roundtrips": 500, "sweep_fired": 40}
SHARD_TIMEOUT = {"quick": 150, "thorough": 2400}

EXCS = [
    ("ValueError", "ValueError('bad value 17')", "bad value 17"),
    ("KeyError", "KeyError('missing-key')", "missing-key"),
    ("ZeroDivisionError", None, "division by zero"),
    ("MyRemoteFailure", "MyRemoteFailure('custom failure')", "custom failure"),
    ("SystemExit", "SystemExit(3)", "3"),
    ("RuntimeError", "RuntimeError('caf\\xe9 \\u65e5\\u672c')", "caf\xe9 日本"),
    ("AssertionError", "AssertionError('line one\\nline two')", "line two"),
    ("OSError", "OSError('No such thing')", "No such thing"),
    # what open(os.fsdecode(b"caf<e9>.txt")) says: a message with a lone surrogate (PEP 383 file names)
    ("ValueError", "ValueError('undecodable-name-\\udce9.txt')", "undecodable-name-"),
    ("EOFError", "EOFError('premature end of my own input data')", "premature end of my own input data"),
]
KINDS = ["body", "callback_local", "callback_remote", "body_peer_dropped", "endmarker_callback_raises"]


class MyRemoteFailure(Exception):
    pass


def shards(tier, seed):
    out = []
    n = 8 if tier == "quick" else 16
    for i in range(n):
        out.append({"kind": "random", "mode": ("sync", "noise", "pct")[i % 3], "runs": 60 if tier == "quick" else 4000,
                    "transport": ("pipe", "tcp")[i % 2]})
    nsw = 4 if tier == "quick" else 8
    for i in range(nsw):
        out.append({"kind": "sweep", "part": i, "parts": nsw, "ks": [1, 2] if tier == "quick" else [1, 2, 3]})
    import glob

    others = [v for v in ("3.10", "3.11", "3.13") if glob.glob(f"/root/.pyenv/versions/{v}.*/bin/python")]
    for sp in ["popen", "socket", "via"] + ["py" + v for v in others]:
        out.append({"kind": "real", "spec": sp, "runs": 4 if tier == "quick" else 80})
    return out


def other_python(spec_name):
    import glob

    return sorted(glob.glob(f"/root/.pyenv/versions/{spec_name[2:]}.*/bin/python"))[-1]


def gen_program(rng, kind=None):
    kind = kind or rng.choice(KINDS)
    n = rng.choice((0, 1, 3, 10))
    return {"kind": kind, "p": rng.randint(0, n), "n": n, # (EOFError, the last entry, is the recorded finding: kept rare, and left to the plain "body" kind, where no 15 s wait for a warning is involved)
            "exc": (len(EXCS) - 1) if (rng.random() < 0.03 and kind != "body_peer_dropped") else rng.randrange(len(EXCS) - 1),
            "dropped": rng.random() < 0.4,
            "own_exec_channel": rng.random() < 0.35, "deep": rng.choice((0, 0, 0, 4, 130, 300)), "other_source_meanwhile": rng.random() < 0.4,
            "consume": rng.choice(("receive", "waitclose_first", "concurrent")), "siblings": rng.choice((0, 2, 3))}


OTHER_SRC = "\n".join(f"x{i} = 'OTHER-PROGRAM-SOURCE-LINE {i}'" for i in range(1, 15)) + "\nchannel.send('other program done')\n"


def body_source(hid, p, exc, deep=0, wait_go=False):
    """-> (source, line of the failing statement); with deep, that statement sits `deep` frames below the body's top level
    (the traceback text must still name it)"""
    name, ctor, _msg = EXCS[exc]
    lines = ["class MyRemoteFailure(Exception):", "    pass", f"for i in range({p}):", f"    channel.send(({hid}, i))"]
    failing = "1 / 0" if ctor is None else f"raise {ctor}"
    if wait_go and not deep:
        lines.append("channel.receive()")
    if deep:
        lines += ["def _deep(n):", "    if n <= 0:", "        " + failing]
        errline = len(lines)
        lines += ["    return _deep(n - 1)"] + (["channel.receive()"] if wait_go else []) + [f"_deep({deep})"]
    else:
        lines.append(failing)
        errline = len(lines)
    return "\n".join(lines) + "\n", errline


def check_remote_error_text(res, text, exc, label, m, where_line=None):
    name, _ctor, msg = EXCS[exc]
    res.count("remoteerrors_checked")
    if name not in text:
        res.violation(m("remoteerror-lacks-exception-type"), f"{label}: {text[-300:]!r}")
    if msg not in text:
        res.violation(m("remoteerror-lacks-message"), f"{label}: want {msg!r} in {text[-300:]!r}")
    if "Traceback" not in text or "File " not in text:
        res.violation(m("remoteerror-lacks-traceback"), f"{label}: {text[-300:]!r}")
    if where_line is not None and f"line {where_line}" not in text:
        res.violation(m("remoteerror-traceback-line-wrong"), f"{label}: want line {where_line} in {text[-400:]!r}")


class Boom:
    """callback that raises on its p-th invocation"""

    def __init__(self, p, exc):
        self.p = p
        self.exc = exc
        self.calls = []

    def __call__(self, item):
        self.calls.append(item)
        if len(self.calls) - 1 == self.p:
            name, ctor, _ = EXCS[self.exc]
            if ctor is None:
                1 / 0
            raise eval(ctor, {"MyRemoteFailure": MyRemoteFailure})


def start_siblings(lab, k, stop):
    """echo siblings: returns list of (thread, log)"""
    out = []
    for s in range(k):
        ch = lab.gw.remote_exec("for x in channel:\n    channel.send((7, x))\n")
        log = {"sent": 0, "ok": 0, "err": None}

        def pump(ch=ch, log=log, s=s):
            try:
                i = 0
                while not stop.is_set() or i < 5:
                    ch.send((s, i))
                    log["sent"] += 1
                    back = ch.receive(5)
                    if back == (7, (s, i)):
                        log["ok"] += 1
                    else:
                        log["err"] = f"wrong echo {back!r}"
                        break
                    i += 1
                ch.close()
            except BaseException as e:  # noqa
                log["err"] = f"{type(e).__name__}: {e}"

        t = threading.Thread(target=pump, daemon=True)
        t.start()
        out.append((t, log))
    return out


def mech(name, exc, kind):
    """mechanism name of a violation; the one recorded finding of this family gets its own key: a remote *body* ending
    with EOFError is taken by executetask for the end of the connection and the channel is closed without an error"""
    if EXCS[exc][0] == "EOFError" and kind.startswith(("body", "real-")) and name in ("failure-not-reported-as-remoteerror",
                                                                                   "failure-of-dropped-channel-not-reported"):
        return f"remote-body-eoferror-closes-channel-without-error:{kind}"
    return f"{name}:{kind}"


def run_program(res: Result, lab, prog, label, hid):
    from execnet.gateway_base import RemoteError

    kind, p, n, exc = prog["kind"], prog["p"], prog["n"], prog["exc"]
    m = lambda name: mech(name, exc, kind)
    stop = threading.Event()
    sibs = start_siblings(lab, prog["siblings"], stop)
    gw = lab.gw
    try:
        if kind == "endmarker_callback_raises":
            # the callback fails on the endmarker itself (the peer closes normally): nothing else may be disturbed
            lc, rc = lab.pair_newchannel_local() if hid % 2 else lab.pair_newchannel_remote()
            X, Y = (lc, rc) if hid % 4 < 2 else (rc, lc)
            del lc, rc
            got = []

            def cb(item):
                got.append(item)
                if item == "<end>":
                    raise ValueError("callback fails on its endmarker")

            X.setcallback(cb, endmarker="<end>")
            for i in range(p):
                Y.send((hid, i))
            Y.close()
            from vlib import pairs

            pairs.wait_until(lambda: "<end>" in got, 15.0)
            if got != [(hid, i) for i in range(p)] + ["<end>"]:
                res.violation(m("callback-transcript-wrong"), f"{label}: {short(got)}")
        elif kind == "body_peer_dropped":
            # the gw.remote_exec(src).setcallback(cb, endmarker) idiom: nobody holds the channel when the body fails.
            # The failure cannot be raised anywhere; it must still be reported (RemoteError.warn) and the callback
            # gets its items and the endmarker.
            from execnet import gateway_base as gb

            name, ctor, msg = EXCS[exc]
            src = ("class MyRemoteFailure(Exception):\n    pass\n"
                   f"for i in range({p}):\n    channel.send(({hid}, i))\n"
                   "try:\n    channel.receive()\nexcept EOFError:\n    pass\n"  # wait until the initiator dropped its end
                   + ("1 / 0\n" if ctor is None else f"raise {ctor}\n"))
            # what gets reported is observed where a user would see it: on this process's stderr (the reporting code
            # itself stays untouched).  The same failing body runs twice: the second report is due as well.
            class Capture:
                def __init__(self):
                    self.parts = []

                def write(self, text):
                    self.parts.append(text)
                    return len(text)

                def flush(self):
                    pass

                def text(self):
                    return "".join(self.parts)

            cap = Capture()
            real_stderr = sys.stderr
            sys.stderr = cap
            reports = lambda: sum(1 for block in cap.text().split("unhandled RemoteError")[1:] if name in block and msg in block)
            try:
                for rnd in (1, 2):
                    got = []
                    ch = gw.remote_exec(src)
                    ch.setcallback(got.append, endmarker="<end>")
                    del ch
                    gc.collect()
                    from vlib import pairs

                    pairs.wait_until(lambda: "<end>" in got, 15.0)
                    # the report is written either when the close arrives (channel object already collected) or when the
                    # object finally goes away (a receiver-thread frame may still hold it for a moment): poll with gc
                    t_end = time.monotonic() + 15.0
                    while reports() < rnd and time.monotonic() < t_end:
                        gc.collect()
                        time.sleep(0.02)
                    if got != [(hid, i) for i in range(p)] + ["<end>"]:
                        res.violation(m("callback-transcript-wrong"), f"{label}: round {rnd}: {short(got)}")
                    if reports() != rnd:
                        res.violation(m("failure-of-dropped-channel-not-reported"),
                                      f"{label}: {reports()} reports on stderr after {rnd} identical failures (stderr: {short(cap.text(), 300)})")
                        break
                    res.count("remoteerrors_checked")
            finally:
                sys.stderr = real_stderr
                other = [ln for ln in cap.text().splitlines() if ln.strip() and "unhandled RemoteError" not in cap.text()]
                if other:
                    real_stderr.write("\n".join(other[:20]) + "\n")
        elif kind == "body":
            meanwhile = bool(prog.get("other_source_meanwhile")) and prog["consume"] == "receive"
            src, errline = body_source(hid, p, exc, deep=prog.get("deep", 0), wait_go=meanwhile)
            ch = gw.remote_exec(src)
            if meanwhile:
                # while this body is still running the worker executes another source (same pseudo file name, other text);
                # only then does the body go on to fail
                ob = gw.remote_exec(OTHER_SRC)
                ob.receive(15)
                ob.waitclose(15)
                ch.send("go")
                res.count("bodies_failing_after_another_source_ran")
            got, first_error, terminal = [], None, None
            if prog["consume"] == "waitclose_first":
                try:
                    ch.waitclose(5)
                    first_error = "waitclose returned"
                except RemoteError as e:
                    first_error = e
                except BaseException as e:  # noqa
                    first_error = f"{type(e).__name__}: {e}"
            nremote = 0
            wouts: list = []
            wths = []
            if prog["consume"] == "concurrent":
                # two more consumers of the same channel, blocked in waitclose() while this thread receives: the one
                # failure wakes all of them and is handed to exactly one
                def waiter():
                    try:
                        ch.waitclose(15)
                        wouts.append("returned")
                    except RemoteError as e:
                        wouts.append(e)
                    except BaseException as e:  # noqa
                        wouts.append(f"{type(e).__name__}: {e}")

                wths = [threading.Thread(target=waiter, daemon=True) for _ in range(2)]
                for t in wths:
                    t.start()
            try:
                while True:
                    got.append(ch.receive(5))
            except RemoteError as e:
                nremote += 1
                if first_error is None:
                    first_error = e
                try:
                    ch.receive(5)
                    terminal = "item"
                except EOFError:
                    terminal = "EOFError"
                except RemoteError:
                    terminal = "RemoteError"
                except BaseException as e2:  # noqa
                    terminal = type(e2).__name__
            except EOFError:
                terminal = "EOFError"
            except BaseException as e:  # noqa
                terminal = f"{type(e).__name__}: {e}"
            for t in wths:
                t.join(20)
            if wths:
                res.count("concurrent_consumer_programs")
                if len(wouts) != len(wths):
                    res.violation(m("concurrent-waitclose-still-blocked"), label)
                for o in wouts:
                    if isinstance(o, RemoteError):
                        nremote += 1
                        first_error = first_error or o
                    elif o != "returned":
                        res.violation(m("concurrent-waitclose-ended-with-" + o.split(":")[0]), f"{label}: {o}")
            if got != [(hid, i) for i in range(p)]:
                res.violation(m("items-before-failure-wrong"), f"{label}: got {short(got)} want {p} items")
            if not isinstance(first_error, RemoteError):
                res.violation(m("failure-not-reported-as-remoteerror"), f"{label}: {first_error!r} terminal={terminal}")
            else:
                check_remote_error_text(res, str(first_error), exc, label, m, where_line=errline)
                if "OTHER-PROGRAM-SOURCE" in str(first_error):
                    res.violation(m("remoteerror-quotes-another-programs-source"), f"{label}: {str(first_error)[-400:]!r}")
                total = nremote + (1 if prog["consume"] == "waitclose_first" else 0)
                if total != 1:
                    res.violation(m("remoteerror-not-exactly-once"), f"{label}: {total} deliveries")
            if terminal != "EOFError":
                res.violation(m("after-remoteerror-not-eoferror"), f"{label}: {terminal}")
            if not ch.isclosed():
                res.violation(m("peer-channel-not-closed-after-failure"), label)
        else:
            # a callback raises on side X; the other side Y is the peer
            fin_exec = None
            if kind == "callback_remote" and prog.get("own_exec_channel") and not prog["dropped"]:
                # the failing callback was registered by a remote body on its *own* channel, and that body is still running
                lc, rc, fin_exec = lab.pair_remote_exec()
                res.count("callbacks_on_a_running_bodys_own_channel")
            else:
                lc, rc = lab.pair_newchannel_local() if hid % 2 else lab.pair_newchannel_remote()
            X, Y = (lc, rc) if kind == "callback_local" else (rc, lc)
            del lc, rc
            boom = Boom(p, exc)
            X.setcallback(boom)
            holder = [X]
            del X
            if prog["dropped"]:
                holder.clear()
                gc.collect()
            for i in range(p + 1):
                try:
                    Y.send((hid, i))
                except OSError:
                    break
            from vlib import pairs

            pairs.wait_until(lambda: len(boom.calls) >= p + 1, 15.0)
            if prog["dropped"]:
                # the dropped side sent LAST_MESSAGE: the peer is in the documented send-only state and its
                # waitclose() returns at once; give the error frame time to arrive before asking
                pairs.wait_until(lambda: Y.isclosed(), 0.25)
            perr = None
            try:
                Y.waitclose(5)
                perr = "waitclose returned"
            except RemoteError as e:
                perr = e
            except BaseException as e:  # noqa
                perr = f"{type(e).__name__}: {e}"
            if not isinstance(perr, RemoteError) and prog["dropped"]:
                try:
                    Y.receive(1)
                except RemoteError as e:
                    perr = e
                except BaseException:
                    pass
            if not isinstance(perr, RemoteError):
                if prog["dropped"]:
                    res.violation("peer-not-told-about-callback-failure-after-drop", f"{label}: peer waitclose -> {perr!r}")
                else:
                    res.violation(m("failure-not-reported-as-remoteerror"), f"{label}: peer waitclose -> {perr!r}")
            else:
                check_remote_error_text(res, str(perr), exc, label, m)
                try:
                    Y.receive(5)
                    res.violation(m("after-remoteerror-not-eoferror"), f"{label}: item")
                except EOFError:
                    pass
                except BaseException as e:
                    res.violation(m("after-remoteerror-not-eoferror"), f"{label}: {type(e).__name__}")
                try:
                    Y.send("late")
                    res.violation(m("peer-send-after-failure-accepted"), label)
                except OSError:
                    pass
            if boom.calls != [(hid, i) for i in range(p + 1)]:
                res.violation(m("callback-invocations-wrong"), f"{label}: {short(boom.calls)} want {p + 1} calls")
            # failing side's own channel
            if holder:
                X = holder[0]
                # (the failing side tells the peer first and closes its own end right after: wait for it)
                try:
                    X.waitclose(5)
                    res.violation(m("failing-side-waitclose-silent"), label)
                except RemoteError as e:
                    check_remote_error_text(res, str(e), exc, label, m)
                except BaseException as e:
                    res.violation(m(f"failing-side-waitclose-raised-{type(e).__name__}"), f"{label}: {e}")
                if not X.isclosed():
                    res.violation(m("failing-side-channel-not-closed"), label)
            if fin_exec is not None:
                fin_exec.set()
    finally:
        stop.set()
    for t, log in sibs:
        t.join(15)
        res.count("sibling_roundtrips", log["ok"])
        if t.is_alive() or log["err"] or log["ok"] != log["sent"]:
            res.violation(m("sibling-channel-disturbed"), f"{label}: {log} alive={t.is_alive()}")
    if not gw.hasreceiver():
        res.violation(m("gateway-lost-after-failure"), label)
    else:
        box = []
        t = threading.Thread(target=lambda: box.append(gw.remote_status()), daemon=True)
        t.start()
        t.join(10)
        if not box:
            res.violation(m("remote-status-unanswered-after-failure"), label)
    res.count("programs")


def run_shard(spec):
    if spec["kind"] == "real":
        return run_real(spec)
    from execnet import gateway_base as gb
    from vlib import chanlab
    from vlib import imodel

    res = Result()
    rng = core.rng_for("C07", spec["tier"], spec["seed"], spec["shard"])
    pre = imodel.Preempt(core.REPO_SRC)
    pre.install()
    lab = None
    hid = 0
    try:
        if spec["kind"] == "random":
            todo = [(None, None, None)] * spec["runs"]
        else:
            lines = imodel.function_lines(gb.ChannelFactory._local_receive, gb.ChannelFactory._local_close, gb.ChannelFactory._no_longer_opened,
                                          gb.WorkerGateway.executetask, gb.Message._channel_close_error, gb.Channel.close, gb.geterrortext, gb.Channel.__del__)
            # the consumer side: stalls there only matter when several consumers share the channel
            clines = imodel.function_lines(gb.Channel._getremoteerror, gb.Channel.receive, gb.Channel.waitclose)
            res.info["sweep_lines"] = len(lines) + len(clines)
            todo = [(ln, k, kind) for ln in lines for k in spec["ks"] for kind in KINDS]
            todo += [(ln, k, "body+concurrent") for ln in clines for k in (1, 2, 3)]
            todo = [t for i, t in enumerate(todo) if i % spec["parts"] == spec["part"]]
        for i, (ln, k, kind) in enumerate(todo):
            if res.enough(4):
                break
            if lab is None or i % 10 == 0 or not lab.gw.hasreceiver():
                if lab is not None:
                    res.sig(lab.sched.signature()[:4000])
                    lab.close()
                lab = chanlab.Lab(spec.get("transport", "pipe"), rng.getrandbits(32))
                if rng.random() < 0.3:
                    # string coercion settings must not change how failures travel
                    cfg = rng.choice(((True, True), (False, True), (False, False)))
                    lab.gw.reconfigure(py2str_as_py3str=cfg[0], py3str_as_py2str=cfg[1])
                    res.count("labs_with_reconfigured_gateway")
            if kind == "body+concurrent":
                prog = gen_program(rng, "body")
                prog["consume"] = "concurrent"
                prog["siblings"] = 0
                if prog["exc"] == len(EXCS) - 1:
                    prog["exc"] = 0
            else:
                prog = gen_program(rng, kind)
            if ln is None and i == 0 and spec["shard"] == 0:
                prog.update(kind="body", exc=len(EXCS) - 1)  # the recorded EOFError finding is exercised in every run
            hid += 1
            if ln is None:
                mode = spec["mode"]
                if mode == "noise":
                    pre.set_noise(rng.getrandbits(32), rng.choice((0.02, 0.1)))
                elif mode == "pct":
                    pre.set_pct(rng.getrandbits(32), 3000, rng.choice((1, 2, 3)), stall=0.02)
                label = f"mode={mode} prog={prog}"
            else:
                prog["siblings"] = 2 if i % 3 == 0 else 0
                pre.restart()
                pre.set_sweep(ln[0], ln[1], k, stall=0.03)
                label = f"sweep line={ln[1]} k={k} prog={prog}"
            nviol = res.counters.get("violations_raw", 0)
            try:
                if i % 4 == 1:
                    # an application that turns warnings into errors (-W error, pytest's filterwarnings=error): reporting
                    # a failure must not be what takes the gateway down
                    import warnings

                    label += " [warnings=error]"
                    res.count("programs_with_warnings_as_errors")
                    with warnings.catch_warnings():
                        warnings.simplefilter("error")
                        run_program(res, lab, prog, label, hid)
                else:
                    run_program(res, lab, prog, label, hid)
            except BaseException as e:
                res.violation(f"program-raised:{type(e).__name__}:{prog['kind']}", f"{label}: {e}")
            if res.counters.get("violations_raw", 0) != nviol or (prog["dropped"] and prog["kind"] != "body"):
                # do not let one broken gateway pair explain the following programs as well
                lab.close()
                lab = None
            pre.off()
            if ln is not None and pre.fired:
                res.count("sweep_fired")
            res.case(core.h64(repr(prog), ln, k, i))
            if i < 2:
                res.sample(prog)
        if lab is not None:
            res.sig(lab.sched.signature()[:4000])
            lab.close()
    finally:
        pre.uninstall()
    return res


REAL_CB = r"""
class MyRemoteFailure(Exception):
    pass
p, dropped = channel.receive()
c = channel.receive()
calls = []
def boom(item):
    calls.append(item)
    if len(calls) - 1 == p:
        raise MyRemoteFailure('custom failure')
c.setcallback(boom)
if dropped:
    del c
channel.send('armed')
channel.receive()
channel.send(calls)
"""


def run_real(spec):
    import execnet
    from execnet.gateway_base import RemoteError

    res = Result()
    rng = core.rng_for("C07r", spec["tier"], spec["seed"], spec["spec"])
    if spec["spec"] != "socket":
        # a worker that runs its bodies one after the other in its main thread: a failing body is reported, and the
        # next one runs as if nothing had happened ("the gateway connection itself stays up", usable)
        group = execnet.Group()
        try:
            if spec["spec"] == "via":
                group.makegateway("popen//id=m")
            gw = group.makegateway("popen//execmodel=main_thread_only" + ("//via=m" if spec["spec"] == "via" else "")
                                   + (f"//python={other_python(spec['spec'])}" if spec["spec"].startswith("py") else ""))
            for k in range(len(EXCS) - 1):
                src, errline = body_source(1000 + k, k % 3, k)
                ch = gw.remote_exec(src)
                got = []
                try:
                    while True:
                        got.append(ch.receive(20))
                except RemoteError as e:
                    check_remote_error_text(res, str(e), k, f"main_thread_only worker, body #{k}", lambda name: f"{name}:mto-{spec['spec']}", where_line=errline)
                except BaseException as e:  # noqa
                    res.violation(f"failure-not-reported-as-remoteerror:mto-{spec['spec']}", f"body #{k} ({EXCS[k][0]}): {type(e).__name__}: {e}")
                try:
                    nxt = gw.remote_exec("channel.send(channel.receive() + 1)")
                    nxt.send(k)
                    if nxt.receive(20) != k + 1:
                        raise RuntimeError("wrong answer")
                    nxt.waitclose(20)
                except BaseException as e:  # noqa
                    res.violation(f"gateway-unusable-after-failed-body:mto-{spec['spec']}", f"after body #{k} ({EXCS[k][0]}): {type(e).__name__}: {str(e)[-200:]}")
                    break
                res.count("programs")
        except BaseException as e:  # noqa
            res.violation(f"real-run-raised:{spec['spec']}:{type(e).__name__}", str(e)[-300:])
        finally:
            group.terminate(3.0)
    for run in range(spec["runs"]):
        group = execnet.Group()
        try:
            if spec["spec"] == "popen":
                gw = group.makegateway("popen")
            elif spec["spec"].startswith("py"):
                # the failing side runs another supported interpreter (the error text is produced there)
                gw = group.makegateway(f"popen//python={other_python(spec['spec'])}")
            elif spec["spec"] == "socket":
                group.makegateway("popen//id=m")
                gw = group.makegateway("socket//installvia=m")
            else:
                group.makegateway("popen//id=m")
                gw = group.makegateway("popen//via=m")
            sib = gw.remote_exec("for x in channel:\n    channel.send(x)\n")
            # (0) a body that dies of an error it was handed on ANOTHER channel (a RemoteError it does not catch): for its own
            # exec channel that is a failure like any other
            fch = gw.remote_exec("other = channel.receive()\nchannel.send('listening')\nother.receive()\nchannel.send('not reached')\n")
            passed = gw.newchannel()
            fch.send(passed)
            try:
                said = fch.receive(20)
                passed.close("an error handed over from the initiating side")
                try:
                    fch.waitclose(20)
                    outcome = "waitclose returned"
                except RemoteError as e:
                    outcome = e
                except BaseException as e:  # noqa
                    outcome = f"{type(e).__name__}: {e}"
            except BaseException as e:  # noqa
                said, outcome = None, f"{type(e).__name__}: {e}"
            res.count("bodies_killed_by_a_foreign_remoteerror")
            if said != "listening" or not isinstance(outcome, RemoteError) or "an error handed over" not in str(outcome) or "Traceback" not in str(outcome):
                res.violation(f"failure-not-reported-as-remoteerror:foreign-remoteerror:real-{spec['spec']}",
                              f"body ended by an uncaught RemoteError from a channel it was given: said {said!r}, then {short(str(outcome), 300)}")
            # (1) body raises
            exc = rng.randrange(len(EXCS))
            m = lambda name, exc=exc: mech(name, exc, f"real-{spec['spec']}")
            p = rng.choice((0, 2, 7))
            src, errline = body_source(run, p, exc)
            ch = gw.remote_exec(src)
            got = []
            try:
                while True:
                    got.append(ch.receive(20))
            except RemoteError as e:
                check_remote_error_text(res, str(e), exc, f"real body p={p}", m, where_line=errline)
                try:
                    ch.receive(20)
                    res.violation(m("after-remoteerror-not-eoferror"), "item")
                except EOFError:
                    pass
            except BaseException as e:
                res.violation(m("failure-not-reported-as-remoteerror"), f"{type(e).__name__}: {e}")
            if got != [(run, i) for i in range(p)]:
                res.violation(m("items-before-failure-wrong"), short(got))
            # (2) worker-side callback raises, channel alive or dropped
            m = lambda name: f"{name}:real-{spec['spec']}"
            for dropped in (False, True):
                p = rng.choice((0, 1, 3))
                ctl = gw.remote_exec(REAL_CB)
                ctl.send((p, dropped))
                c = gw.newchannel()
                ctl.send(c)
                ctl.receive(20)
                for i in range(p + 1):
                    c.send(i)
                try:
                    if dropped:
                        time.sleep(0.3)  # send-only state: waitclose returns at once; let the error frame arrive first
                    c.waitclose(20)
                    if dropped:
                        res.violation("peer-not-told-about-callback-failure-after-drop", f"real {spec['spec']}: waitclose returned")
                    else:
                        res.violation(m("failure-not-reported-as-remoteerror"), f"callback dropped={dropped}: waitclose returned")
                except RemoteError as e:
                    check_remote_error_text(res, str(e), 3, f"real callback dropped={dropped}", m)
                except BaseException as e:
                    res.violation(m("failure-not-reported-as-remoteerror"), f"callback dropped={dropped}: {type(e).__name__}: {e}")
                try:
                    ctl.send("report")
                    calls = ctl.receive(20)
                    if calls != list(range(p + 1)):
                        res.violation(m("callback-invocations-wrong"), f"{calls} want {p + 1}")
                    ctl.waitclose(20)
                except BaseException as e:
                    res.violation(m("gateway-lost-after-failure"), f"dropped={dropped}: {type(e).__name__}: {e}")
                # sibling still fine
                try:
                    sib.send(("ping", run))
                    if sib.receive(20) != ("ping", run):
                        res.violation(m("sibling-channel-disturbed"), "wrong echo")
                    res.count("sibling_roundtrips")
                except BaseException as e:
                    res.violation(m("sibling-channel-disturbed"), f"{type(e).__name__}: {e}")
            if not gw.hasreceiver():
                res.violation(m("gateway-lost-after-failure"), "hasreceiver false")
            else:
                gw.remote_status()
            res.count("programs")
            res.case(core.h64("real", spec["spec"], run))
        except BaseException as e:
            res.violation(f"real-run-raised:{spec['spec']}:{type(e).__name__}", str(e)[-300:])
        finally:
            group.terminate(3.0)
    res.sample({"real": spec["spec"], "runs": spec["runs"]})
    return res
