"""C11 - workers never outlive their initiator."""

from __future__ import annotations

import json
import os
import signal
import subprocess
import tempfile
import threading
import time

from vlib import core
from vlib import procs
from vlib.core import Result
from vlib.core import short

ID = "C11"
LEVEL = "fault_enumeration"
RULE = ("fault = the initiating process disappears. Generated cases: topology (popen, popen//python=, popen//via=, socket//installvia) x "
        "worker execmodel (thread, main_thread_only, gevent) x worker activity (idle, blocked in receive, busy loop, sleep, loop swallowing "
        "KeyboardInterrupt, SIGINT ignored, daemon threads, flooding a channel, big transfer in flight, ENDMARKER callback raising) x inherited stderr (file, pipe whose reader is gone, fd 2 closed) x removal (SIGKILL, SIGTERM, os._exit, "
        "normal exit, connection closed only, SIGKILL at a random moment during bootstrap); every process carrying the case's VERIF_TAG must "
        "have left /proc within 15 s + 10 s slack of the removal. distinct = distinct (topology, execmodel, activity, removal) cases")
ASSUMPTIONS = [
    "non-daemon helper threads and processes blocked unkillably in the kernel are outside the quantifier",
    "gevent workers whose body never yields are classified as the recorded known finding gevent-noncooperative-body",
]
MINIMUM = {"cases": 20, "distinct": 12}
SHARD_TIMEOUT = {"quick": 280, "thorough": 3000}
PAR = 8
BOUND = 25.0

ACTS = ["idle", "blocked", "busy", "sleep", "swallow_kbi", "sigint_ignored", "daemon_threads", "flood", "big_transfer", "endmarker_raises",
        "callback_service", "inbound_flood", "thread_exhaustion", "unread_backlog", "two_senders_full_pipe", "python_sigint_handler", "python_sigint_ign"]
GEVENT_ACTS = ["idle", "blocked", "gevent_sleep", "gevent_busy", "gevent_timesleep", "two_senders_full_pipe"]
REMOVALS = ["sigkill", "sigterm", "os_exit", "normal_exit", "close_connection", "during_bootstrap", "exit_after_fork"]
TOPOS = ["popen", "python", "via", "socket"] + [t for t in ("py3.10", "py3.11", "py3.13") if __import__("glob").glob(f"/root/.pyenv/versions/{t[2:]}.*/bin/python")]


def shards(tier, seed):
    n = 6 if tier == "quick" else 8
    per = 6 if tier == "quick" else 190
    out = [{"kind": "procs", "cases": per, "conc": 6 if tier == "quick" else 12} for _ in range(n)]
    nsw = 2 if tier == "quick" else 6
    for i in range(nsw):
        out.append({"kind": "inproc", "part": i, "parts": nsw, "ks": [1, 2] if tier == "quick" else [1, 2, 3, 4], "noise_runs": 20 if tier == "quick" else 400})
    return out


def gen_case(rng, idx):
    topo = rng.choice(TOPOS)
    model = rng.choice(("thread", "thread", "main_thread_only", "gevent"))
    if topo == "socket":
        # the socket server (and the gateway it serves) runs inside its master's process with the master's exec model;
        # a main_thread_only master would be occupied by the server loop (documented limitation), so: thread
        model = "thread"
    if topo.startswith("py3") and model == "gevent":
        model = "thread"  # (gevent is installed for the initiating side's interpreter only)
    act = rng.choice(GEVENT_ACTS if model == "gevent" else ACTS)
    removal = rng.choice(REMOVALS)
    if removal == "exit_after_fork" and act not in ("idle", "blocked", "busy", "sleep", "swallow_kbi", "sigint_ignored", "daemon_threads", "gevent_sleep", "python_sigint_handler", "python_sigint_ign"):
        # the helper keeps the pipes open: a worker that is writing into a pipe nobody reads any more (its receiver thread
        # included, when it has to refuse a request) is connected to a living, silent peer - that is not the loss of the
        # initiator the property speaks of
        removal = "sigkill"
    gws = []
    if topo in ("via", "socket"):
        gws.append({"spec": "popen", "id": "m", "execmodel": "thread", "activity": rng.choice(("idle", "blocked")) if topo == "via" else "idle"})
        gws.append({"spec": topo, "id": "w", "master": "m", "execmodel": model, "activity": act})
    else:
        gws.append({"spec": topo, "id": "w", "execmodel": model, "activity": act})
        if rng.random() < 0.3:
            gws.append({"spec": "popen", "id": "w2", "execmodel": "thread", "activity": rng.choice(("idle", "blocked", "sleep"))})
    action = {"sigkill": "wait_killed", "sigterm": "wait_killed", "during_bootstrap": "wait_killed"}.get(removal, removal)
    return {"gateways": gws, "action": action, "removal": removal, "topo": topo, "model": model, "activity": act,
            "worker_noise": rng.random() < 0.4, "worker_debug": rng.random() < 0.15,
            # what the workers inherit as fd 2: a file; a pipe whose reader goes away with the initiator; nothing (fd 2 closed)
            "stderr": rng.choice(("file", "file", "file", "pipe_reader_gone", "closed")),
            "boot_delay": rng.choice((0.0, 0.02, 0.05, 0.1, 0.15, 0.25, 0.4)), "removal_delay": rng.choice((0.0, 0.0, 0.01, 0.1, 0.3))}


def run_case(case, out):
    tag = procs.new_tag()
    d = tempfile.mkdtemp(prefix="verif-c11-")
    cf = os.path.join(d, "case.json")
    with open(cf, "w") as f:
        json.dump(case, f)
    errf = open(os.path.join(d, "stderr.txt"), "wb")
    extra = {"VERIF_TAG": tag}
    if case.get("worker_noise"):
        extra["EXECNET_VERIF"] = "noise:%d:0.02:5" % (hash(tag) & 0xFFFF)
    if case.get("worker_debug"):
        # workers that trace (EXECNET_DEBUG=2 writes to their stderr), with collections starting at arbitrary lines
        extra["EXECNET_DEBUG"] = "2"
        extra["EXECNET_VERIF"] = "noisegc:%d:0.02:5" % (hash(tag) & 0xFFFF)
    mode = case.get("stderr", "file")
    err_r = None
    kw: dict = {"stderr": errf}
    if mode == "pipe_reader_gone":
        err_r, err_w = os.pipe()
        kw = {"stderr": err_w}
    elif mode == "closed":
        kw = {"stderr": None, "preexec_fn": _close_fd2}
    p = subprocess.Popen([core.PY, "-m", "vlib.initiator", cf], cwd=core.VERIF, env=core.child_env(extra),
                         stdout=subprocess.PIPE, stdin=subprocess.DEVNULL, start_new_session=True, **kw)
    if err_r is not None:
        os.close(err_w)
        gone = threading.Event()

        def drain():
            # the supervising process reading the initiator's stderr: it goes away together with the initiator
            import select

            while not gone.is_set():
                if select.select([err_r], [], [], 0.05)[0]:
                    try:
                        data = os.read(err_r, 65536)
                    except OSError:
                        break
                    if not data:
                        break
                    errf.write(data)
                    errf.flush()
            os.close(err_r)

        dt_ = threading.Thread(target=drain, daemon=True)
        dt_.start()
    events = []
    ready = threading.Event()
    closed = threading.Event()

    def reader():
        for line in p.stdout:
            try:
                e = json.loads(line)
            except ValueError:
                continue
            events.append(e)
            if e.get("event") == "ready":
                ready.set()
            if e.get("event") == "connections_closed":
                closed.set()

    rt = threading.Thread(target=reader, daemon=True)
    rt.start()
    removal = case["removal"]
    result = {"case": case, "tag": tag}
    try:
        if removal == "during_bootstrap":
            time.sleep(case["boot_delay"])
            os.kill(p.pid, signal.SIGKILL)
            t0 = time.monotonic()
        else:
            if not ready.wait(90):
                ierr = next((e.get("error", "") + " " + e.get("tb", "")[-200:] for e in events if e.get("event") == "initiator_error"), "")
                result["harness_error"] = "initiator never became ready: " + (ierr or _tail(errf.name))
                return
            # the moment of the removal relative to what the initiator is doing (a transfer towards a worker needs a
            # moment to be under way)
            time.sleep(0.4 if case.get("activity") == "inbound_flood" else case.get("removal_delay", 0.0))
            if removal == "sigkill":
                os.kill(p.pid, signal.SIGKILL)
                t0 = time.monotonic()
            elif removal == "sigterm":
                os.kill(p.pid, signal.SIGTERM)
                t0 = time.monotonic()
            elif removal == "close_connection":
                if not closed.wait(30):
                    result["harness_error"] = "initiator did not close its connections"
                    return
                t0 = time.monotonic()
            else:
                try:
                    p.wait(30)
                except subprocess.TimeoutExpired:
                    result["harness_error"] = "initiator did not exit by itself"
                    return
                t0 = time.monotonic()
        if err_r is not None:
            gone.set()
            dt_.join(2)
        result["workers_at_removal"] = [x for x in procs.tagged_pids(tag) if x != p.pid]
        # observe
        keep = {p.pid} if removal == "close_connection" else set()
        keep |= {e["pid"] for e in events if e.get("event") == "helper_pid"}  # (the forked-off helper is no worker)
        left = []
        while True:
            pids = [x for x in procs.tagged_pids(tag) if x not in keep and procs.alive(x)]
            dt = time.monotonic() - t0
            if not pids:
                break
            if dt > BOUND:
                left = pids
                break
            time.sleep(0.05)
        result["latency"] = round(time.monotonic() - t0, 2)
        result["left"] = [(x, procs.cmdline(x)[:80]) for x in left]
        result["stderr_tail"] = _tail(errf.name, 600) if left else ""
    finally:
        out.append(result)
        procs.kill_all(tag)
        if err_r is not None:
            gone.set()
        try:
            p.kill()
        except OSError:
            pass
        errf.close()
        import shutil

        shutil.rmtree(d, ignore_errors=True)


def _close_fd2():
    os.close(2)


def _tail(path, n=400):
    try:
        with open(path, "rb") as f:
            return f.read()[-n:].decode("utf-8", "replace")
    except OSError:
        return ""


def run_inproc(spec):
    """The worker's own way out, at line granularity: an in-process WorkerGateway (real classes, real pipe/TCP) whose
    initiator end is cut while a task is finishing; serve() returning is the in-process equivalent of the worker process
    exiting.  Single-pre-emption sweep over the functions the exit ladder is made of."""
    from execnet import gateway_base as gb
    from vlib import imodel
    from vlib import pairs

    res = Result()
    rng = core.rng_for("C11i", spec["tier"], spec["seed"], spec["shard"])
    pre = imodel.Preempt(core.REPO_SRC)
    pre.install()
    try:
        lines = imodel.function_lines(gb.WorkerPool.integrate_as_primary_thread, gb.WorkerPool.trigger_shutdown, gb.WorkerPool._perform_spawn,
                                      gb.WorkerPool.waitall, gb.WorkerGateway._terminate_execution, gb.WorkerGateway.serve,
                                      gb.WorkerGateway.executetask, gb.BaseGateway._thread_receiver, gb.ChannelFactory._finished_receiving)
        todo = [(ln, k) for ln in lines for k in spec["ks"]]
        todo = [t for i, t in enumerate(todo) if i % spec["parts"] == spec["part"]] + [(None, i) for i in range(spec["noise_runs"])]
        res.info["inproc_sweep_lines"] = len(lines)
        for ln, k in todo:
            if res.enough(3):
                break
            model = rng.choice(("thread", "main_thread_only"))
            sched = imodel.Sched(rng.getrandbits(32), p_yield=0.1, p_sleep=0.02)
            pair = pairs.Pair(rng.choice(("pipe", "tcp")), worker_backend=model, sched=sched)
            gw = pair.gw
            keep: list = []
            label = f"in-process worker {model}: " + (f"stall at line {ln[1]} hit {k}" if ln else f"line noise run {k}")
            try:
                for _ in range(rng.choice((0, 1, 2))):
                    gw.remote_exec("channel.send(1)").waitclose(10)
                if rng.random() < 0.5:
                    # services left behind by earlier executions: callbacks on channels whose objects are gone
                    keep.append(gw.remote_exec("c = channel.gateway.newchannel()\nchannel.send(c)\nc.setcallback(lambda item: None)\ndel c\n"
                                               "c2 = channel.gateway.newchannel()\nchannel.send(c2)\nc2.setcallback(lambda item: None, endmarker=None)\ndel c2").receive(10))
                    res.count("inproc_runs_with_callback_services")
                if ln is None:
                    pre.set_noise(rng.getrandbits(32), rng.choice((0.05, 0.2)))
                else:
                    pre.restart()
                    pre.set_sweep(ln[0], ln[1], k, stall=0.03)
                # a task that is just finishing when the initiator goes away
                last = gw.remote_exec(rng.choice(("pass", "channel.send(2)", "import time\ntime.sleep(0.002)")))
                if rng.random() < 0.5:
                    try:
                        last.waitclose(10)
                    except BaseException:
                        pass
                t0 = time.monotonic()
                # the initiator disappears: both directions of its end are closed
                pairs._bounded(pair.raw_a.close_write, 1.0)
                pairs._bounded(pair.raw_a.close_read, 1.0)
                done = pair.worker_done.wait(12.0)
                dt = time.monotonic() - t0
                pre.off()
                res.count("cases")
                res.count("inproc_worker_exits")
                if ln is not None and pre.fired:
                    res.count("sweep_fired")
                res.case(core.h64("inproc", model, ln, k))
                res.sig(sched.signature()[:2000])
                if not done:
                    res.violation(f"worker-serve-did-not-return-after-connection-loss:{model}", f"{label}: still serving {dt:.1f}s after its initiator end was closed")
                res.info.setdefault("inproc_worker_exit_latency_s", {})[model] = round(dt, 3)
            except BaseException as e:
                res.violation(f"inproc-run-raised:{type(e).__name__}", f"{label}: {e}")
            finally:
                pre.off()
                pair.close(1.0)
        res.sample({"inproc_worker_exit_runs": len(todo), "lines": len(lines)})
    finally:
        pre.uninstall()
    return res


def run_shard(spec):
    if spec.get("kind") == "inproc":
        return run_inproc(spec)
    res = Result()
    rng = core.rng_for("C11", spec["tier"], spec["seed"], spec["shard"])
    cases = [gen_case(rng, i) for i in range(spec["cases"])]
    # make sure the slow rungs of the ladder are represented in every run
    if spec["shard"] == 0:
        cases[0].update(gen_fixed("popen", "thread", "sigint_ignored", "sigkill"))
        cases[1].update(gen_fixed("popen", "main_thread_only", "swallow_kbi", "os_exit"))
        cases[2].update(gen_fixed("popen", "thread", "swallow_kbi", "sigkill", stderr="pipe_reader_gone"))
        cases[4].update(gen_fixed("popen", "thread", "callback_service", "sigkill"))
    extra_fixed = []
    if spec["shard"] == 5:
        extra_fixed += [dict(gen_fixed("popen", "thread", "sleep", "sigkill"), worker_debug=True), dict(gen_fixed("popen", "main_thread_only", "idle", "close_connection"), worker_debug=True),
                        dict(gen_fixed("python", "thread", "blocked", "os_exit"), worker_debug=True), dict(gen_fixed("popen", "thread", "idle", "sigkill"), worker_debug=True)]
    if spec["shard"] == 4:
        extra_fixed += [gen_fixed("popen", "thread", "python_sigint_handler", "sigkill"), gen_fixed("python", "main_thread_only", "python_sigint_ign", "os_exit")]
    if spec["shard"] == 2:
        extra_fixed += [gen_fixed("popen", "gevent", "two_senders_full_pipe", "sigkill"), gen_fixed("popen", "thread", "two_senders_full_pipe", "sigkill"),
                        gen_fixed("popen", "thread", "idle", "exit_after_fork"), gen_fixed("python", "main_thread_only", "sleep", "exit_after_fork")]
    if spec["shard"] == 1:
        extra_fixed += [gen_fixed("popen", "thread", "unread_backlog", "sigkill"), gen_fixed("popen", "main_thread_only", "unread_backlog", "normal_exit")]
        if "py3.10" in TOPOS:
            extra_fixed += [gen_fixed("py3.10", "thread", "idle", "sigkill"), gen_fixed("py3.10", "main_thread_only", "sleep", "os_exit")]
    if spec["shard"] == 3:
        cases[0].update(gen_fixed("popen", "thread", "inbound_flood", "sigkill"))
        cases[1].update(gen_fixed("python", "main_thread_only", "inbound_flood", "sigkill"))
    if spec["shard"] == 4:
        cases[0].update(gen_fixed("via", "thread", "inbound_flood", "sigkill"))
        cases[1].update(gen_fixed("popen", "thread", "inbound_flood", "sigterm"))
    if spec["shard"] == 5:
        cases[0].update(gen_fixed("popen", "main_thread_only", "inbound_flood", "sigkill"))
        cases[1].update(gen_fixed("popen", "thread", "thread_exhaustion", "sigkill"))
        cases[2].update(gen_fixed("python", "thread", "thread_exhaustion", "close_connection"))
        cases[5].update(gen_fixed("python", "main_thread_only", "callback_service", "close_connection"))
        cases[3].update(gen_fixed("python", "thread", "sigint_ignored", "sigkill", stderr="closed"))
    if spec["shard"] == 2:
        cases[0].update(gen_fixed("popen", "thread", "endmarker_raises", "sigkill"))
        cases[1].update(gen_fixed("python", "main_thread_only", "endmarker_raises", "os_exit"))
        cases[2].update(gen_fixed("popen", "thread", "endmarker_raises", "sigkill", stderr="closed"))
        cases[3].update(gen_fixed("via", "thread", "endmarker_raises", "close_connection", stderr="pipe_reader_gone"))
    if spec["shard"] == 1:
        cases[0].update(gen_fixed("python", "thread", "busy", "sigkill"))
        cases[1].update(gen_fixed("popen", "thread", "blocked", "close_connection"))
    cases += extra_fixed
    out: list = []
    sem = threading.Semaphore(spec["conc"])
    ths = []

    def guarded(c):
        with sem:
            try:
                run_case(c, out)
            except BaseException as e:  # noqa
                out.append({"case": c, "harness_error": repr(e)})

    for c in cases:
        t = threading.Thread(target=guarded, args=(c,), daemon=True)
        ths.append(t)
        t.start()
    for t in ths:
        t.join(SHARD_TIMEOUT[spec["tier"]] - 20)
    lat: dict = {}
    for r in out:
        c = r["case"]
        key = f"{c['topo']}/{c['model']}/{c['activity']}/{c['removal']}"
        if c.get("stderr", "file") != "file":
            key += "/stderr=" + c["stderr"]
            res.count("cases_stderr_" + c["stderr"])
        if "harness_error" in r:
            res.inconclusive.append(f"{key}: {r['harness_error']}")
            continue
        res.count("cases")
        res.case(core.h64(key))
        if len(res.samples) < 3:
            res.sample({"case": key, "latency_s": r["latency"], "workers": len(r["workers_at_removal"])})
        cls = c["activity"]
        lat.setdefault(cls, []).append(r["latency"])
        if r["left"]:
            if c["model"] == "gevent" and c["activity"] in ("gevent_busy", "gevent_timesleep"):
                res.violation("gevent-noncooperative-body", f"{key}: alive after {BOUND}s: {r['left']}")
            else:
                res.violation(f"worker-outlived-initiator:{c['activity']}:{c['model']}",
                              f"{key}: still alive {BOUND}s after the initiator was removed: {r['left']}; stderr: {r['stderr_tail'][-300:]}")
    res.info["exit_latency_s_by_activity"] = {k: max(v) for k, v in lat.items()}
    if len(out) != len(cases):
        res.inconclusive.append(f"{len(cases) - len(out)} cases did not report")
    return res


def gen_fixed(topo, model, act, removal, stderr="file"):
    action = {"sigkill": "wait_killed", "sigterm": "wait_killed", "during_bootstrap": "wait_killed"}.get(removal, removal)
    gws = [{"spec": topo, "id": "w", "execmodel": model, "activity": act}]
    if topo in ("via", "socket"):
        gws = [{"spec": "popen", "id": "m", "execmodel": "thread", "activity": "idle"},
               {"spec": topo, "id": "w", "master": "m", "execmodel": model, "activity": act}]
    return {"gateways": gws, "action": action, "removal": removal, "topo": topo, "model": model, "activity": act, "stderr": stderr}
