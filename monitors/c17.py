"""C17 - RSync makes every target tree equal to the source, minimally."""

from __future__ import annotations

import os
import shutil
import stat
import tempfile
import time

from vlib import core
from vlib.core import Result
from vlib.core import short

ID = "C17"
LEVEL = "exploration"
RULE = ("generated source trees (names with spaces / unicode / leading dashes / newlines; empty, binary and large files; modes 0o400-0o777; "
        "integral, fractional, old and future mtimes; nested and empty directories; relative, upward-relative, absolute-inside, "
        "absolute-outside and dangling symlinks) x generated prior target state (absent, empty, stale copy, same names of another kind, "
        "extra entries) x delete flag x 1-3 targets x caller's working directory (outside, source root, source sub-directory, inside a "
        "target, relative source path) x up to 4 modify-then-resync steps (content with same size, size, mtime only, mode only, kind change, "
        "removal, addition); snapshots of source and targets compared after send(); an immediate second sync must transfer nothing. "
        "distinct = distinct (tree, prior state, options, cwd, step) cases")
ASSUMPTIONS = [
    "a prior target file with the same size AND the same mtime but other bytes is not generated (the size/mtime quick check cannot see it by design)",
    "directory permission bits are expected as source | 0o700 (deliberate and documented in the code); symlink and directory mtimes are not compared",
    "the sandbox runs as root: permission-denied paths are not reachable",
]
MINIMUM = {"syncs": 120, "entries_compared": 3000, "symlinks_compared": 100, "resync_steps": 60}
SHARD_TIMEOUT = {"quick": 150, "thorough": 3000}

NAMES = ["a", "a.tmp", "b.txt", "b.txt.tmp", "b.txt~", ".b.txt.swp", "with space", "ünï-cödé", "-dash", "new\nline", "日本", "x" * 40, ".hidden", "tab\there", "q'uote\"", "CAPS",
         # names that are not in unicode normal form C (and, next to them, what NFC would make of them): different names here
         "e\u0301te\u0301.txt", "\u00e9t\u00e9.txt", "A\u030angstro\u0308m", "\u212bngstr\u00f6m"]


def shards(tier, seed):
    n = 12 if tier == "quick" else 24
    return [{"cases": 60 if tier == "quick" else 2500} for _ in range(n)]


# ---------------------------------------------------------------------------
# tree generation


def gen_tree(rng, root, depth=0, budget=None):
    """creates a random tree under root (which exists); returns list of relative dir paths"""
    budget = budget if budget is not None else [rng.choice((3, 8, 20))]
    names = rng.sample(NAMES, rng.randint(0 if depth else 1, min(len(NAMES), 5)))
    for nm in names:
        if budget[0] <= 0:
            break
        budget[0] -= 1
        p = os.path.join(root, nm)
        k = rng.random()
        if k < 0.55:
            write_file(rng, p)
        elif k < 0.8 and depth < 3:
            os.mkdir(p)
            gen_tree(rng, p, depth + 1, budget)
            os.chmod(p, rng.choice((0o755, 0o700, 0o750, 0o555, 0o511, 0o777)))
            set_mtime(rng, p)
        else:
            # placeholder: symlinks are added in a second pass when all names are known
            write_file(rng, p)


def write_file(rng, p, size=None):
    size = size if size is not None else rng.choice((0, 0, 1, 5, 100, 4096, 70000)) if rng.random() < 0.97 else 3_000_000
    data = rng.randbytes(size) if size < 100000 else rng.randbytes(1000) * (size // 1000)
    with open(p, "wb") as f:
        f.write(data)
    os.chmod(p, rng.choice((0o644, 0o600, 0o400, 0o444, 0o755, 0o711, 0o640, 0o777, 0o604, 0o000, 0o4711, 0o001)))
    set_mtime(rng, p)


_mtime_serial = [0]


def set_mtime(rng, p):
    now = time.time()
    t = rng.choice((now, int(now), now - 86400 * 400.5, 1.0, 1234567890.123456, now + 86400 * 30, int(now) + 0.999999, 946684800))
    # every timestamp handed out is distinct (whole seconds apart, so integral ones stay integral): a rewritten file never has
    # both the size and the mtime of its predecessor - the one situation the size/mtime quick check cannot see by design
    _mtime_serial[0] += 1
    t += 2 * _mtime_serial[0]
    os.utime(p, (t, t), follow_symlinks=False)


def add_symlinks(rng, src, outside):
    allp = []
    for d, dn, fn in os.walk(src):
        for n in dn + fn:
            allp.append(os.path.join(d, n))
    dirs = [src] + [p for p in allp if os.path.isdir(p) and not os.path.islink(p)]
    made = 0
    for _ in range(rng.choice((0, 1, 2, 4))):
        d = rng.choice(dirs)
        name = "lnk%d-%s" % (made, rng.choice(("x", "with space", "é")))
        lp = os.path.join(d, name)
        kind = rng.choice(("relative", "relative_sub", "upward", "absolute_inside", "absolute_outside", "dangling", "dangling_abs_inside"))
        target_entry = rng.choice(allp) if allp else src
        if kind == "relative":
            sib = [n for n in os.listdir(d) if n != name]
            text = rng.choice(sib) if sib else "nothing-here"
        elif kind == "relative_sub":
            text = os.path.relpath(target_entry, d)
        elif kind == "upward":
            text = os.path.join("..", "..", "..", "up-and-away", "f")
        elif kind == "absolute_inside":
            if target_entry == src:
                continue
            text = target_entry
        elif kind == "absolute_outside":
            text = os.path.join(outside, "elsewhere")
        elif kind == "dangling":
            text = "does-not-exist"
        else:
            text = os.path.join(src, "no", "such", "entry")
        try:
            os.symlink(text, lp)
            made += 1
        except OSError:
            pass
    return made


def snapshot(root):
    """rel path -> (kind, mode, size, mtime_ns, content-hash | link text)"""
    import hashlib

    out = {}
    if not os.path.lexists(root):
        return out
    for d, dn, fn in os.walk(root):
        for n in list(dn) + fn:
            p = os.path.join(d, n)
            rel = os.path.relpath(p, root)
            st = os.lstat(p)
            if stat.S_ISLNK(st.st_mode):
                out[rel] = ("link", 0, 0, 0, os.readlink(p))
                if n in dn:
                    dn.remove(n)
            elif stat.S_ISDIR(st.st_mode):
                out[rel] = ("dir", stat.S_IMODE(st.st_mode), 0, st.st_mtime_ns, None)
            else:
                with open(p, "rb") as f:
                    h = hashlib.sha1(f.read()).hexdigest()
                out[rel] = ("file", stat.S_IMODE(st.st_mode), st.st_size, st.st_mtime_ns, h)
    return out


def gen_prior(rng, src, dst):
    how = rng.choice(("absent", "empty", "stale_copy", "other_kinds", "extras", "stale_copy"))
    if how == "absent":
        return how
    os.makedirs(dst)
    if how == "empty":
        return how
    if how in ("stale_copy", "other_kinds"):
        shutil.rmtree(dst)
        shutil.copytree(src, dst, symlinks=True)
        ents = [os.path.join(d, n) for d, dn, fn in os.walk(dst) for n in dn + fn]
        rng.shuffle(ents)
        for p in ents[: max(1, len(ents) // 2)]:
            if not os.path.lexists(p):
                continue
            k = rng.random()
            try:
                if how == "other_kinds":
                    isdir = os.path.isdir(p) and not os.path.islink(p)
                    (shutil.rmtree if isdir else os.unlink)(p)
                    c = rng.choice(("file", "dir", "link"))
                    if c == "file":
                        write_file(rng, p, 7)
                    elif c == "dir":
                        os.mkdir(p)
                        write_file(rng, os.path.join(p, "inner"), 3)
                    else:
                        os.symlink("somewhere", p)
                elif os.path.isfile(p) and not os.path.islink(p):
                    if k < 0.3:
                        with open(p, "ab") as f:
                            f.write(b"stale-extra")
                    elif k < 0.6:
                        st = os.lstat(p)
                        data = open(p, "rb").read()
                        if data:
                            with open(p, "r+b") as f:
                                f.write(bytes([data[0] ^ 1]))
                            os.utime(p, ns=(st.st_mtime_ns - 5_000_000_000, st.st_mtime_ns - 5_000_000_000))  # same size, older mtime
                    elif k < 0.7:
                        os.chmod(p, 0o600 if stat.S_IMODE(os.lstat(p).st_mode) != 0o600 else 0o644)
                    elif k < 0.85:
                        # the right bytes already, only the timestamp differs (e.g. restored from a backup)
                        st = os.lstat(p)
                        os.utime(p, ns=(st.st_mtime_ns + 7_000_000_000, st.st_mtime_ns + 7_000_000_000))
                    else:
                        os.unlink(p)
            except OSError:
                pass
    if how == "stale_copy":
        # links left by an earlier, different way of copying: same name, a text that is some other spelling of the source
        # link's text (the path relative to the tree's root, the bare name, the same text with a trailing slash)
        for d, dn, fn in os.walk(src):
            for n in dn + fn:
                sp = os.path.join(d, n)
                tp = os.path.join(dst, os.path.relpath(sp, src))
                if os.path.islink(sp) and os.path.islink(tp) and rng.random() < 0.7:
                    text = os.readlink(sp)
                    if os.path.isabs(text) and text.startswith(src + os.sep):
                        alt = rng.choice((os.path.relpath(text, src), os.path.basename(text), os.path.relpath(text, src) + os.sep))
                    else:
                        alt = rng.choice((os.path.basename(text) or "x", os.path.join(".", text), text + os.sep))
                    try:
                        os.unlink(tp)
                        os.symlink(alt, tp)
                    except OSError:
                        pass
    if how in ("extras", "stale_copy") or rng.random() < 0.3:
        # leftovers whose names differ from a source entry's name only in the case of some letters
        for d, dn, fn in os.walk(src):
            tdir = os.path.join(dst, os.path.relpath(d, src))
            if not os.path.isdir(tdir) or os.path.islink(tdir):
                continue
            for n in (dn + fn)[:3]:
                for variant in {n.swapcase(), n.upper(), n.lower(), n.capitalize()} - {n}:
                    if rng.random() < 0.5 or os.path.lexists(os.path.join(d, variant)) or os.path.lexists(os.path.join(tdir, variant)):
                        continue
                    vp = os.path.join(tdir, variant)
                    try:
                        c = rng.choice(("file", "dir", "link"))
                        if c == "file":
                            write_file(rng, vp, 9)
                        elif c == "dir":
                            os.mkdir(vp)
                            write_file(rng, os.path.join(vp, "inner"), 3)
                        else:
                            os.symlink("elsewhere", vp)
                    except OSError:
                        pass
        for i in range(rng.randint(1, 3)):
            d = rng.choice([dst] + [os.path.join(x, n) for x, dn, fn in os.walk(dst) for n in dn if not os.path.islink(os.path.join(x, n))])
            try:
                write_file(rng, os.path.join(d, f"unrelated-{i}"), 11)
            except OSError:
                pass
        os.makedirs(os.path.join(dst, "unrelated-dir", "deep"), exist_ok=True)
        write_file(rng, os.path.join(dst, "unrelated-dir", "deep", "f"), 5)
        # unrelated entries whose names are a source file's name plus a typical scratch suffix
        for d, dn, fn in os.walk(src):
            for n in fn[:2]:
                tdir = os.path.join(dst, os.path.relpath(d, src))
                if os.path.isdir(tdir) and not os.path.islink(tdir):
                    for suffix in (".tmp", "~"):
                        pth = os.path.join(tdir, n + suffix)
                        if not os.path.lexists(pth) and not os.path.lexists(os.path.join(d, n + suffix)):
                            try:
                                write_file(rng, pth, 7)
                            except OSError:
                                pass
            break
    return how


def modify(rng, src):
    """one modification step on the source tree; returns its name"""
    ents = [os.path.join(d, n) for d, dn, fn in os.walk(src) for n in dn + fn]
    files = [p for p in ents if os.path.isfile(p) and not os.path.islink(p)]
    step = rng.choice(("content_same_size", "size", "mtime_only", "mode_only", "kind_change", "removal", "addition", "mode_only"))
    try:
        if step == "content_same_size" and files:
            p = rng.choice(files)
            data = open(p, "rb").read()
            if data:
                mode = stat.S_IMODE(os.lstat(p).st_mode)
                os.chmod(p, 0o600)
                with open(p, "r+b") as f:
                    f.write(bytes([data[0] ^ 0xFF]))
                os.chmod(p, mode)
                now = time.time() + rng.random()
                os.utime(p, (now, now))
        elif step == "size" and files:
            p = rng.choice(files)
            mode = stat.S_IMODE(os.lstat(p).st_mode)
            os.chmod(p, 0o600)
            with open(p, "ab") as f:
                f.write(b"more")
            os.chmod(p, mode)
        elif step == "mtime_only" and files:
            p = rng.choice(files)
            t = os.lstat(p).st_mtime + rng.choice((1, -1, 0.5, 3600))
            os.utime(p, (t, t))
        elif step == "mode_only" and files:
            p = rng.choice(files)
            cur = stat.S_IMODE(os.lstat(p).st_mode)
            os.chmod(p, rng.choice([m for m in (0o644, 0o600, 0o400, 0o444, 0o640, 0o755, 0o604, 0o000, 0o004) if m != cur]))
        elif step == "kind_change" and ents:
            p = rng.choice(ents)
            isdir = os.path.isdir(p) and not os.path.islink(p)
            (shutil.rmtree if isdir else os.unlink)(p)
            c = rng.choice(("file", "dir", "link"))
            if c == "file":
                write_file(rng, p, 9)
            elif c == "dir":
                os.mkdir(p)
                write_file(rng, os.path.join(p, "child"), 4)
            else:
                os.symlink("relative-target", p)
        elif step == "removal" and ents:
            p = rng.choice(ents)
            isdir = os.path.isdir(p) and not os.path.islink(p)
            (shutil.rmtree if isdir else os.unlink)(p)
        else:
            step = "addition"
            dirs = [src] + [p for p in ents if os.path.isdir(p) and not os.path.islink(p)]
            write_file(rng, os.path.join(rng.choice(dirs), "added-%d" % rng.randrange(1000)))
    except OSError:
        pass
    return step


# ---------------------------------------------------------------------------


def expected_link(text, src, dst):
    """link text expected in the target for a source link with this text"""
    if os.path.isabs(text):
        rel = os.path.relpath(text, src)
        if rel not in (os.curdir, os.pardir) and not rel.startswith(os.pardir + os.sep):
            return os.path.join(dst, rel)
    return text


def compare(res, label, src, dst, srcsnap, prior, delete, m):
    now = snapshot(dst)
    for rel, (kind, mode, size, mt, extra) in srcsnap.items():
        res.count("entries_compared")
        got = now.get(rel)
        if got is None:
            res.violation(m("source-entry-missing-in-target"), f"{label}: {rel!r} ({kind})")
            continue
        if got[0] != kind:
            res.violation(m("entry-kind-differs"), f"{label}: {rel!r}: {got[0]} instead of {kind}")
            continue
        if kind == "file":
            if got[4] != extra or got[2] != size:
                res.violation(m("file-content-differs"), f"{label}: {rel!r}")
            if got[1] != mode:
                res.violation(m("file-permission-bits-differ"), f"{label}: {rel!r}: {oct(got[1])} instead of {oct(mode)}")
            if abs(got[3] - mt) > 1000:
                res.violation(m("file-mtime-differs"), f"{label}: {rel!r}: {got[3]} vs {mt} ns")
        elif kind == "dir":
            if got[1] != (mode | 0o700):
                res.violation(m("directory-permission-bits-differ"), f"{label}: {rel!r}: {oct(got[1])} instead of {oct(mode | 0o700)}")
        else:
            res.count("symlinks_compared")
            want = expected_link(extra, src, dst)
            if got[4] != want:
                cls = "absolute-inside" if os.path.isabs(extra) and want != extra else ("absolute" if os.path.isabs(extra) else "relative")
                res.violation(m(f"symlink-text-differs:{cls}"), f"{label}: {rel!r}: {got[4]!r} instead of {want!r} (source text {extra!r})")
    extra_names = set(now) - set(srcsnap)
    if delete:
        if extra_names:
            res.violation(m("delete-left-unlisted-entries"), f"{label}: {sorted(extra_names)[:4]}")
    else:
        # unrelated prior entries (not under a source path of another kind) stay byte- and stat-identical
        for rel, val in prior.items():
            if rel in srcsnap:
                continue
            parts = rel.split(os.sep)
            shadowed = any(os.sep.join(parts[:i]) in srcsnap and srcsnap[os.sep.join(parts[:i])][0] != "dir" for i in range(1, len(parts)))
            if shadowed:
                continue
            # an unrelated directory's mtime changes when siblings are created inside its parent, not inside itself
            under_src_dir = os.sep.join(parts[:-1]) in srcsnap or len(parts) == 1
            got = now.get(rel)
            cmpval = lambda v: (v[0], v[1], v[2], v[4]) if v and v[0] == "dir" else v
            if cmpval(got) != cmpval(val):
                res.violation(m("unrelated-entry-touched"), f"{label}: {rel!r}: {val} -> {got}")
    return now


def run_shard(spec):
    import execnet

    res = Result()
    rng = core.rng_for("C17", spec["tier"], spec["seed"], spec["shard"])
    base = tempfile.mkdtemp(prefix="verif-c17-")
    home = os.getcwd()
    group = execnet.Group()
    gws = [group.makegateway("popen") for _ in range(3)]

    class CountingRSync(execnet.RSync):
        def __init__(self, *a, **k):
            super().__init__(*a, **k)
            self.sent = []

        def _report_send_file(self, gateway, modified_rel_path):
            self.sent.append(modified_rel_path)

    try:
        for ci in range(spec["cases"]):
            if res.enough(10):
                break
            case = os.path.join(base, f"case{ci}")
            src = os.path.join(case, rng.choice(("src", "source dir", "sřc")))
            outside = os.path.join(case, "outside")
            os.makedirs(src)
            os.makedirs(outside)
            if ci % 4 == 2:
                # the source directory is reached through a symlinked path component (absolute links inside the tree are
                # written with that same spelling, as by somebody working under that path)
                os.symlink(case, os.path.join(case, "lnk-to-case"))
                src = os.path.join(case, "lnk-to-case", os.path.basename(src))
                res.count("sources_behind_a_symlinked_component")
            gen_tree(rng, src)
            add_symlinks(rng, src, outside)
            if ci % 6 == 1:
                # entries whose names merely begin with dots, and absolute links into them: still inside the tree
                dd = os.path.join(src, "..cache", "v1")
                os.makedirs(dd)
                write_file(rng, os.path.join(dd, "blob"))
                write_file(rng, os.path.join(src, "..."))
                for k_, tgt in enumerate((dd, os.path.join(src, "..."), os.path.join(src, "..cache"), os.path.join(dd, "blob"))):
                    os.symlink(tgt, os.path.join(src, f"lnk-dots-{k_}"))
                os.symlink(os.path.join("..cache", "v1"), os.path.join(src, "lnk-dots-rel"))
                res.count("trees_with_dot_dot_names")
            ntargets = rng.choice((1, 1, 2, 3))
            delete = rng.random() < 0.5
            dsts = [os.path.join(case, f"target{t}", "dest") for t in range(ntargets)]
            priors = []
            hows = []
            for d in dsts:
                os.makedirs(os.path.dirname(d))
                hows.append(gen_prior(rng, src, d))
                priors.append(snapshot(d))
            cwdkind = rng.choice(("outside", "source_root", "source_subdir", "inside_target", "relative_source"))
            if "lnk-to-case" in src and cwdkind in ("relative_source", "source_root", "source_subdir"):
                # (a working directory inside the aliased tree is reported by the OS under its physical name: a relative
                #  source path would then name the tree by another spelling than the links inside it use)
                cwdkind = rng.choice(("outside", "inside_target"))
            nsteps = rng.choice((0, 1, 2, 4))
            trailing_sep = rng.random() < 0.25
            if trailing_sep:
                res.count("targets_spelled_with_a_trailing_separator")
            for step in range(nsteps + 1):
                if step:
                    stepname = modify(rng, src)
                    priors = [snapshot(d) for d in dsts]
                    res.count("resync_steps")
                else:
                    stepname = "initial"
                # caller's working directory
                subdirs = [os.path.join(d, n) for d, dn, fn in os.walk(src) for n in dn if not os.path.islink(os.path.join(d, n))]
                srcarg = src
                if cwdkind == "outside":
                    os.chdir(outside)
                elif cwdkind == "source_root":
                    os.chdir(src)
                elif cwdkind == "source_subdir" and subdirs:
                    os.chdir(rng.choice(subdirs))
                elif cwdkind == "inside_target" and os.path.isdir(dsts[0]):
                    os.chdir(dsts[0])
                elif cwdkind == "relative_source":
                    os.chdir(case)
                    srcarg = os.path.basename(src)
                else:
                    os.chdir(outside)
                label = (f"case{ci} step{step}:{stepname} cwd={cwdkind} delete={delete} targets={ntargets} prior={hows}")
                m = lambda name, stepname=stepname: f"{name}" if stepname in ("initial",) else f"{name}:after-{stepname}"
                srcsnap = snapshot(src)
                lists = []
                try:
                    rs = CountingRSync(srcarg, callback=lambda *a: lists.append(a), verbose=False)
                    for gw, d in zip(gws, dsts):
                        # (the same directory, spelled with a trailing separator by some callers)
                        rs.add_target(gw, d + os.sep if trailing_sep else d, delete=delete)
                    rs.send()
                except BaseException as e:
                    os.chdir(home)
                    res.violation(f"rsync-send-raised:{type(e).__name__}", f"{label}: {str(e)[-300:]}")
                    break
                os.chdir(home)
                res.count("syncs")
                res.case(core.h64(spec["shard"], ci, step, cwdkind, delete, ntargets, tuple(hows), stepname, len(srcsnap)))
                if len(res.samples) < 3:
                    res.sample({"label": label, "source_entries": len(srcsnap), "files_sent": len(rs.sent)})
                if snapshot(src) != srcsnap:
                    res.violation("source-tree-modified-by-sync", label)
                after = []
                for d, prior in zip(dsts, priors):
                    after.append(compare(res, label + f" target={os.path.basename(os.path.dirname(d))}", src, d, srcsnap, prior, delete, m))
                # idempotence: an immediate second sync transfers no file content and changes nothing
                os.chdir(outside)
                lists2 = []
                try:
                    rs2 = CountingRSync(src, callback=lambda *a: lists2.append(a), verbose=False)
                    for gw, d in zip(gws, dsts):
                        rs2.add_target(gw, d, delete=delete)
                    rs2.send()
                except BaseException as e:
                    os.chdir(home)
                    res.violation(f"rsync-resend-raised:{type(e).__name__}", f"{label}: {str(e)[-300:]}")
                    break
                os.chdir(home)
                res.count("syncs")
                if rs2.sent:
                    res.violation(m("resync-of-unchanged-tree-sent-content"), f"{label}: {rs2.sent[:4]}")
                tot = [a[1] for a in lists2 if a[0] == "list"]
                if any(tot):
                    res.violation(m("resync-list-total-nonzero"), f"{label}: {tot}")
                for d, snap_before in zip(dsts, after):
                    s2 = snapshot(d)
                    strip = lambda s: {k: ((v[0], v[1], v[2], v[4]) if v[0] == "dir" else v) for k, v in s.items()}
                    if strip(s2) != strip(snap_before):
                        diff = [k for k in set(s2) | set(snap_before) if strip(s2).get(k) != strip(snap_before).get(k)]
                        res.violation(m("resync-of-unchanged-tree-changed-target"), f"{label}: {diff[:4]}")
    finally:
        os.chdir(home)
        group.terminate(3.0)
        # make everything removable again
        for d, dn, fn in os.walk(base):
            for n in dn:
                try:
                    os.chmod(os.path.join(d, n), 0o700)
                except OSError:
                    pass
        shutil.rmtree(base, ignore_errors=True)
    return res
