"""C15 - bootstrapping needs nothing installed on the other side."""

from __future__ import annotations

import json
import os
import socket
import subprocess
import sys
import time

from vlib import core
from vlib import dsl
from vlib import values
from vlib.core import Result
from vlib.core import short

ID = "C15"
LEVEL = "exploration"
RULE = ("(a) workers on interpreters that provably cannot import execnet (python -S -E for every available CPython 3.10-3.13 and the venv "
        "python), reached by popen//python=, through via= (with and without python=), as socket//installvia server and through ssh= / "
        "vagrant_ssh= (login shim), exec models thread and main_thread_only: an "
        "audit hook installed by the first remote_exec records every import of an 'execnet*' name, sys.modules is inspected at the end, the "
        "DSL programs of C06 must produce the predicted transcripts, line coverage of the shipped source inside the bare worker is recorded; "
        "(b) in a bare -S -E -I interpreter the exact strings bootstrap_exec / bootstrap_socket transmit and the socketserver module are "
        "exec'd with an import blocker for execnet* and every code object of the shipped source is walked: each global it loads must resolve "
        "in that namespace or builtins, no import may target execnet*; (c) the stand-alone socket server script runs on a bare interpreter and "
        "serves a socket= gateway. distinct = distinct (interpreter, path, model, program) cases + code objects walked")
ASSUMPTIONS = ["no sshd / vagrant in the sandbox: the ssh= and vagrant_ssh= paths run against vlib/shims/{ssh,vagrant}, which hand the remote "
               "command line to a fresh /bin/sh with an empty environment (what a login on a foreign host does); real ssh quoting, "
               "compression and network behaviour are not exercised"]
MINIMUM = {"bare_workers": 6, "programs": 60, "code_objects_walked": 150, "standalone_server_runs": 1}
SHARD_TIMEOUT = {"quick": 150, "thorough": 3000}
PYENV = "/root/.pyenv/versions"


def bare_interpreters():
    out = []
    for v in ("3.10.13", "3.11.7", "3.12.1", "3.13.0"):
        p = f"{PYENV}/{v}/bin/python"
        if os.path.exists(p):
            out.append(p)
    out.append(core.PY)
    return out


def shards(tier, seed):
    out = []
    for py in bare_interpreters():
        for path in ("popen", "via", "socket", "via_nopython", "ssh", "vagrant_ssh", "popen_stdio_encoding"):
            out.append({"kind": "dynamic", "python": py, "path": path,
                        "n": 8 if tier == "quick" else (1500 if path in ("popen", "via", "socket") else 200)})
    for py in bare_interpreters():
        out.append({"kind": "sweep", "python": py})
    out.append({"kind": "standalone", "pythons": bare_interpreters()})
    out.append({"kind": "import_path", "pythons": bare_interpreters()})
    out.append({"kind": "cmdlines"})
    return out


def run_shard(spec):
    return {"dynamic": run_dynamic, "sweep": run_sweep, "standalone": run_standalone, "cmdlines": run_cmdlines, "import_path": run_import_path}[spec["kind"]](spec)


PROBE = r"""
import sys
already = sorted(m for m in sys.modules if m.split(".")[0] == "execnet")
try:
    import execnet
    importable = "importable from " + str(getattr(execnet, "__file__", "?"))
    for _m in [m for m in sys.modules if m.split(".")[0] == "execnet"]:
        del sys.modules[_m]  # this probe's own import must not count
except ImportError:
    importable = "ImportError"
seen = []
def hook(event, args):
    if event == "import" and str(args[0]).split(".")[0] == "execnet":
        seen.append(str(args[0]))
sys.addaudithook(hook)
sys._verif_seen = seen
channel.send((importable, sys.version.split()[0], sys.flags.no_site, sys.flags.ignore_environment, __name__, already))
"""

COVER_START = r"""
import sys
hits = set()
fn = sys.modules["__main__"].__dict__["serve"].__code__.co_filename
if hasattr(sys, "monitoring"):
    mon = sys.monitoring
    mon.use_tool_id(4, "verif-cov")
    def line(code, ln):
        if code.co_filename == fn:
            hits.add(ln)
        else:
            return mon.DISABLE
    mon.register_callback(4, mon.events.LINE, line)
    mon.set_events(4, mon.events.LINE)
else:
    import threading
    def tr(frame, event, arg):
        if frame.f_code.co_filename != fn:
            return None
        if event == "line":
            hits.add(frame.f_lineno)
        return tr
    threading.settrace(tr)
    sys.settrace(tr)
sys._verif_hits = hits
channel.send(fn)
"""

SERVICE = r"""
out = channel.gateway.newchannel()
c = channel.gateway.newchannel()
def cb(item, out=out):
    out.send(("echo", type(item).__name__))
    if isinstance(item, dict):
        item["carrier"].send("hello over the carried channel")
c.setcallback(cb, endmarker=None)
channel.send((c, out))
del c
"""

MAIN_THREAD = r"""
import threading, signal
main = threading.current_thread() is threading.main_thread()
try:
    old = signal.signal(signal.SIGUSR2, signal.SIG_IGN)
    signal.signal(signal.SIGUSR2, old)
    sig = "ok"
except ValueError as e:
    sig = str(e)
channel.send((main, sig))
"""

FINAL = r"""
import sys
mods = sorted(m for m in sys.modules if m.split(".")[0] == "execnet")
channel.send((list(sys._verif_seen), mods, sorted(getattr(sys, "_verif_hits", ()))))
"""


def run_dynamic(spec):
    import execnet
    from execnet.gateway_base import RemoteError

    res = Result()
    py = spec["python"]
    rng = core.rng_for("C15", spec["tier"], spec["seed"], py, spec["path"])
    g = values.Gen(rng, max_bytes=2000, huge_ints=False, max_depth=3)
    label0 = f"{os.path.basename(os.path.dirname(os.path.dirname(py))) if 'pyenv' in py else 'venv'}:{spec['path']}"
    for model in ("thread", "main_thread_only"):
        label = f"{label0}:{model}"
        group = execnet.Group()
        saved_env = {k: os.environ.get(k) for k in ("PYTHONPATH", "EXECNET_DEBUG", "PATH", "PYTHONIOENCODING", "VERIF_SSH_HOME")}
        cleanup_dirs: list = []
        # EXECNET_DEBUG selects other branches of the shipped source: they must be self-contained too
        dbg = {"thread": rng.choice((None, "1", "2")), "main_thread_only": rng.choice((None, "1"))}[model]
        try:
            if dbg is not None:
                os.environ["EXECNET_DEBUG"] = dbg
                label += f":EXECNET_DEBUG={dbg}"
                res.count("bare_workers_with_debug_tracing")
            bare = f"popen//python={py} -S -E"
            if spec["path"] == "via_nopython":
                # a forwarder without execnet starts the sub-process with *its own* interpreter and no python= in the
                # spec: the sub must still be bootstrapped from shipped source (nothing to import there)
                os.environ.pop("PYTHONPATH", None)
                m = group.makegateway(bare + "//id=master")
                gw = group.makegateway(f"popen//via=master//execmodel={model}")
                probe_on = [m, gw]
            elif spec["path"] == "popen":
                gw = group.makegateway(bare + f"//execmodel={model}")
                probe_on = [gw]
            elif spec["path"] == "popen_stdio_encoding":
                # the other side's standard streams are not UTF-8 (legacy locale, Windows pipes, PYTHONIOENCODING): the
                # bootstrap line and the shipped source travel through them as text.  (-S without -E so that the
                # variable is honoured; PYTHONPATH is removed instead)
                os.environ.pop("PYTHONPATH", None)
                enc = rng.choice(("ascii", "latin-1", "cp1252", "ascii:backslashreplace"))
                os.environ["PYTHONIOENCODING"] = enc
                label += f":stdio={enc}"
                gw = group.makegateway(f"popen//python={py} -S//execmodel={model}")
                probe_on = [gw]
                res.count("bare_workers_with_non_utf8_stdio")
            elif spec["path"] in ("ssh", "vagrant_ssh"):
                # the login shim: the remote command line runs in a fresh shell with an empty environment
                os.environ["PATH"] = os.path.join(core.VERIF, "vlib", "shims") + os.pathsep + os.environ.get("PATH", "")
                host = rng.choice(("fakehost", "-p 2222 me@fakehost", "me@fakehost")) if spec["path"] == "ssh" else "default"
                extra = rng.choice(("", "//ssh_config=/nonexistent/ssh.cfg", "//chdir=" + os.path.join(core.VERIF, "vlib"), "//env:VERIF_X=1", "//dont_write_bytecode",
                                    "//dont_write_bytecode//nice=1"))
                # "python3" is found on the login shell's PATH: the distribution's interpreter, which has no execnet
                pyarg = rng.choice((f"{py} -S -E", "python3", "~/bin/py -S -E", "$HOME/bin/py -S -E"))
                if pyarg == "python3":
                    res.count("workers_on_system_python_via_login_path")
                elif "/bin/py " in pyarg:
                    # a per-user interpreter named relative to the remote home: expanded by the remote login shell
                    import tempfile

                    home = tempfile.mkdtemp(prefix="verif-c15-home-")
                    os.makedirs(os.path.join(home, "bin"))
                    os.symlink(py, os.path.join(home, "bin", "py"))
                    os.environ["VERIF_SSH_HOME"] = home
                    cleanup_dirs.append(home)
                    res.count("workers_named_by_remote_shell_expansion")
                gw = group.makegateway(f"{spec['path']}={host}//python={pyarg}//execmodel={model}{extra}")
                probe_on = [gw]
            elif spec["path"] == "via":
                if model == "main_thread_only":
                    # the interpreter is named the way the *forwarder* finds it (relative to its working directory, or
                    # by a name that only its PATH knows): the initiating side has no such file and needs none
                    import tempfile

                    box = tempfile.mkdtemp(prefix="verif-c15-box-")
                    cleanup_dirs.append(box)
                    os.makedirs(os.path.join(box, "pybin"))
                    os.symlink(py, os.path.join(box, "pybin", "py-of-the-box"))
                    if rng.random() < 0.5:
                        m = group.makegateway(bare + f"//id=master//chdir={box}")
                        pyarg = rng.choice(("pybin/py-of-the-box", "./pybin/py-of-the-box"))
                    else:
                        m = group.makegateway(bare + f"//id=master//env:PATH={box}/pybin:/usr/bin:/bin")
                        pyarg = "py-of-the-box"
                    label += f":python={pyarg}"
                    res.count("proxied_workers_on_an_interpreter_only_the_forwarder_can_find")
                    gw = group.makegateway(f"popen//via=master//python={pyarg} -S -E//execmodel={model}")
                else:
                    m = group.makegateway(bare + "//id=master")
                    gw = group.makegateway(f"popen//via=master//python={py} -S -E//execmodel={model}")
                probe_on = [m, gw]
            else:
                if model == "main_thread_only":
                    continue  # the socket gateway lives in its server's process with the server's exec model
                m = group.makegateway(bare + "//id=master")
                gw = group.makegateway("socket//installvia=master")
                probe_on = [m]
                # a second socket worker on the same host while the first one lives (it is served from another thread there)
                try:
                    gw2 = group.makegateway("socket//installvia=master")
                    second = gw2.remote_exec("channel.send(channel.receive() * 2)")
                    second.send(21)
                    second = second.receive(20)
                except BaseException as e:  # noqa
                    second = f"{type(e).__name__}: {str(e)[-200:]}"
                res.count("second_socket_workers_on_one_host")
                if second != 42:
                    res.violation("second-socket-worker-on-a-host-does-not-come-up:socket", f"{label}: {second!r}")
            for w in probe_on:
                imp, ver, nosite, ignenv, nm, already = w.remote_exec(PROBE).receive(30)
                if already:
                    res.violation(f"worker-was-bootstrapped-by-importing-execnet:{spec['path']}", f"{label}: sys.modules had {already[:4]} before any user code ran")
                if imp != "ImportError" and not (spec["path"] == "via_nopython" and w is gw):
                    res.inconclusive.append(f"{label}: execnet is {imp} on the would-be bare interpreter")
                    break
                if nm != "__channelexec__":
                    res.violation(f"bare-worker-name-wrong:{spec['path']}", f"{label}: {nm}")
            else:
                res.count("bare_workers")
                res.info.setdefault("bare_interpreters_used", []).append(f"{ver} {label}")
                covch = gw.remote_exec(COVER_START) if spec["path"] != "socket" else None
                if covch is not None:
                    covch.receive(30)
                # the generic channel programs behave as predicted
                for i in range(spec["n"]):
                    prog = dsl.gen_program(rng, g)
                    prog["stmts"] = [s for s in prog["stmts"] if s[0] != "kwarg"]
                    src, raise_ln = dsl.render_string(prog)
                    ch = gw.remote_exec(src)
                    obs = dsl.drive(prog, ch, timeout=30)
                    try:
                        ch.waitclose(20)
                    except RemoteError:
                        pass
                    res.count("programs")
                    res.case(core.h64(label, i, repr(prog["stmts"])[:1000]))
                    diff = dsl.compare(obs, dsl.predict(prog))
                    if diff:
                        res.violation(f"bare-worker-transcript-differs:{spec['path']}", f"{label} program #{i}: {diff}")
                        break
                # a service left behind by remote code: a callback on a channel whose object is gone there (less travelled
                # branches of the shipped receiver code), fed plain items and an item carrying a channel
                sv = gw.remote_exec(SERVICE)
                c_in, c_out = sv.receive(15)
                sv.waitclose(30)
                c_in.send(("plain", 1))
                inner = gw.newchannel()
                c_in.send({"carrier": inner})
                c_in.close()
                svgot = []
                try:
                    for _ in range(3):
                        svgot.append(c_out.receive(8))
                except BaseException as e:  # noqa
                    svgot.append(f"{type(e).__name__}: {str(e)[-200:]}")
                try:
                    inner_said = inner.receive(8)
                except BaseException as e:  # noqa
                    inner_said = f"{type(e).__name__}: {str(e)[-200:]}"
                res.count("callback_services_on_bare_workers")
                if svgot != [("echo", "tuple"), ("echo", "dict"), ("echo", "NoneType")] or inner_said != "hello over the carried channel":
                    res.violation(f"bare-worker-callback-service-differs:{spec['path']}", f"{label}: {short(svgot, 300)} / {short(inner_said, 200)}")
                # like any worker, an idle one runs remote code in its main thread (signal handlers, GUI toolkits ... need that)
                # (idle: the thread that ran the previous code may need a moment to become available again, so ask a few times)
                for attempt in range(6):
                    try:
                        mtch = gw.remote_exec(MAIN_THREAD)
                        mt = mtch.receive(20)
                        mtch.waitclose(20)
                    except BaseException as e:  # noqa
                        mt = f"{type(e).__name__}: {str(e)[-200:]}"
                    if mt == (True, "ok"):
                        break
                    time.sleep(0.3)
                res.count("main_thread_probes_on_bare_workers")
                if mt != (True, "ok"):
                    res.violation(f"bare-worker-runs-code-outside-main-thread:{spec['path']}", f"{label}: (in main thread, signal.signal) = {short(mt, 200)}")
                # rsync's remote part and remote_status work there too
                st = gw.remote_status()
                if spec["path"] != "socket" and st.execmodel != model:
                    res.violation(f"bare-worker-execmodel-wrong:{spec['path']}", f"{label}: {st.execmodel}")
                for w in probe_on:
                    seen, mods, hits = w.remote_exec(FINAL).receive(30)
                    if seen or mods:
                        res.violation(f"bare-worker-imported-execnet:{spec['path']}", f"{label}: import events {seen[:5]}, sys.modules {mods[:5]}")
                    if hits:
                        res.info.setdefault("shipped_source_lines_executed_in_bare_worker", {})[label] = len(hits)
                if len(res.samples) < 2:
                    res.sample({"bare_worker": label, "python": ver, "programs": spec["n"]})
        except BaseException as e:
            res.violation(f"bare-bootstrap-failed:{spec['path']}:{type(e).__name__}", f"{label}: {str(e)[-400:]}")
        finally:
            group.terminate(3.0)
            for d_ in cleanup_dirs:
                import shutil

                shutil.rmtree(d_, ignore_errors=True)
            for k, v in saved_env.items():
                if v is None:
                    os.environ.pop(k, None)
                else:
                    os.environ[k] = v
            if dbg == "1":
                import glob
                import tempfile

                for f in glob.glob(os.path.join(tempfile.gettempdir(), "execnet-debug-*")):
                    try:
                        if time.time() - os.path.getmtime(f) < 300:
                            os.unlink(f)
                    except OSError:
                        pass
    return res


# ---------------------------------------------------------------------------
# (b) live-object sweep of exactly what is transmitted

SWEEP_CHILD = r"""
import sys, json, dis, builtins, types
payload = json.load(sys.stdin)
import importlib.abc
class Blocker(importlib.abc.MetaPathFinder):
    def find_spec(self, name, path=None, target=None):
        if name.split(".")[0] == "execnet":
            raise ImportError("execnet is blocked in this interpreter: " + name)
sys.meta_path.insert(0, Blocker())
report = {"problems": [], "walked": 0, "imports": []}
for label, text in payload:
    ns = {"__name__": "__shipped__", "__builtins__": builtins}
    fname = "<shipped:%s>" % label
    try:
        exec(compile(text, fname, "exec"), ns)
    except BaseException as e:
        report["problems"].append([label, "exec of shipped source failed", type(e).__name__ + ": " + str(e)[:300]])
        continue
    seen = set()
    def walk(co, owner):
        if id(co) in seen or co.co_filename != fname:
            return
        seen.add(id(co))
        report["walked"] += 1
        for ins in dis.get_instructions(co):
            if ins.opname in ("LOAD_GLOBAL", "LOAD_NAME"):
                name = ins.argval
                if ins.opname == "LOAD_NAME" and (name in co.co_varnames or name.startswith("__")):
                    continue  # class bodies: names bound in the body itself / implicit dunders
                bound_here = any(i2.opname in ("STORE_NAME", "STORE_GLOBAL") and i2.argval == name for i2 in dis.get_instructions(co))
                if name not in ns and not hasattr(builtins, name) and not bound_here:
                    report["problems"].append([label, "unresolved global", co.co_name + ":" + str(ins.positions.lineno if hasattr(ins, "positions") and ins.positions else "?") + " " + name])
            elif ins.opname == "IMPORT_NAME":
                report["imports"].append(ins.argval)
                if str(ins.argval).split(".")[0] == "execnet":
                    report["problems"].append([label, "import of execnet module", co.co_name + " imports " + str(ins.argval)])
        for c in co.co_consts:
            if isinstance(c, types.CodeType):
                walk(c, c.co_name)
    def visit(obj):
        if isinstance(obj, types.FunctionType):
            walk(obj.__code__, obj.__name__)
        elif isinstance(obj, (staticmethod, classmethod)):
            visit(obj.__func__)
        elif isinstance(obj, property):
            for f in (obj.fget, obj.fset, obj.fdel):
                if f: visit(f)
        elif isinstance(obj, type):
            for v in list(vars(obj).values()):
                if isinstance(v, type):
                    if v.__module__ == "__shipped__": visit(v)
                else:
                    visit(v)
    for v in list(ns.values()):
        if isinstance(v, type) and v.__module__ != "__shipped__":
            continue
        visit(v)
report["imports"] = sorted(set(map(str, report["imports"])))
json.dump(report, sys.stdout)
"""


class _RecIO:
    def __init__(self):
        self.written = []
        self.remoteaddress = "x"

    def write(self, data):
        self.written.append(data)

    def read(self, n):
        return b"1"

    def wait(self):
        return 0


def shipped_texts():
    """the exact source texts the bootstrap functions transmit (definitions part, without the trailing driver lines)"""
    import inspect

    import execnet
    from execnet import gateway_bootstrap
    from execnet.script import socketserver

    out = []
    io = _RecIO()
    spec = execnet.XSpec("popen//python=python3//id=x")
    spec.execmodel = "thread"
    gateway_bootstrap.bootstrap_exec(io, spec)
    text = eval(io.written[0].decode("utf-8"))
    marker = "\nexecmodel = get_execmodel("
    assert marker in text
    out.append(("bootstrap_exec", text[: text.rindex(marker)]))
    io = _RecIO()
    gateway_bootstrap.bootstrap_socket(io, "x")
    text = eval(io.written[0].decode("utf-8"))
    marker = "\ntry: execmodel"
    assert marker in text
    out.append(("bootstrap_socket", text[: text.rindex(marker)]))
    driver_exec = eval(_RecIOText(gateway_bootstrap, spec))
    # (the socketserver module is shipped through remote_exec(module) and as a stand-alone script: both are decided
    # dynamically by the socket path of (a) and by (c); its globals are bound by the branch that runs)
    return out, driver_exec


def _RecIOText(gateway_bootstrap, spec):
    io = _RecIO()
    gateway_bootstrap.bootstrap_exec(io, spec)
    return io.written[0].decode("utf-8")


def run_sweep(spec):
    res = Result()
    texts, full = shipped_texts()
    py = spec["python"]
    p = subprocess.run([py, "-S", "-E", "-I", "-c", SWEEP_CHILD], input=json.dumps(texts).encode(), capture_output=True, timeout=120,
                       env={"PATH": os.environ.get("PATH", "")}, cwd="/")
    if p.returncode != 0:
        res.violation("shipped-source-unusable-on-bare-interpreter", f"{py}: {p.stderr.decode()[-600:]}")
        return res
    rep = json.loads(p.stdout)
    res.count("code_objects_walked", rep["walked"])
    res.evaluations += rep["walked"]
    res.distinct.add(core.h64("sweep", py))
    res.distinct.add(core.h64("sweep-imports", tuple(rep["imports"])))
    res.info["modules_imported_by_shipped_source"] = rep["imports"]
    for label, what, detail in rep["problems"]:
        res.violation(f"shipped-source-not-self-contained:{what.replace(' ', '-')}", f"{label} on {py}: {detail}")
    # the driver lines at the end of what bootstrap_exec sends use only names the shipped source defines
    for need in ("get_execmodel", "init_popen_io", "serve"):
        if need not in full:
            res.violation("bootstrap-driver-lines-changed", need)
    res.sample({"python": py, "code_objects_walked": rep["walked"], "imports": rep["imports"][:12]})
    return res


# ---------------------------------------------------------------------------
# (c) stand-alone socket server


IMPORT_MASTER = r"""
import sys, json
sys.path.insert(0, sys.argv[1])          # the application vendors execnet: no PYTHONPATH, nothing installed for it
import execnet
out = {"master": execnet.__file__}
try:
    gw = execnet.makegateway(sys.argv[2])
    ch = gw.remote_exec("import execnet, sys, threading; channel.send((execnet.__file__, channel.gateway.__class__.__module__))")
    out["worker"], out["worker_gateway_module"] = ch.receive(30)
    ch2 = gw.remote_exec("channel.send(channel.receive() * 2)")
    ch2.send(21)
    out["echo"] = ch2.receive(30)
    out["execmodel"] = gw.remote_status().execmodel
    gw.exit()
except BaseException as e:
    out["error"] = type(e).__name__ + ": " + str(e)[-300:]
print(json.dumps(out))
"""


def run_import_path(spec):
    """the import bootstrap (plain popen): the child is the same interpreter started afresh; it must come up and run the
    *initiator's* execnet although that is importable in the initiator only through a run-time sys.path entry"""
    res = Result()
    for py in spec["pythons"]:
        for gwspec in ("popen", "popen//execmodel=main_thread_only", "popen//dont_write_bytecode"):
            env = {k: v for k, v in os.environ.items() if k not in ("PYTHONPATH", "PYTHONHOME", "EXECNET_DEBUG")}
            label = f"{py} {gwspec}"
            try:
                p = subprocess.run([py, "-c", IMPORT_MASTER, core.REPO_SRC, gwspec], env=env, capture_output=True, text=True, timeout=90,
                                   cwd=tempfile_dir())
            except subprocess.TimeoutExpired:
                res.violation("import-bootstrap-hangs", label)
                continue
            res.count("import_bootstrapped_workers")
            res.case(core.h64("import_path", py, gwspec))
            try:
                out = json.loads(p.stdout.strip().splitlines()[-1])
            except (ValueError, IndexError):
                res.violation("import-bootstrap-master-failed", f"{label}: rc={p.returncode} {short(p.stderr, 300)}")
                continue
            want = os.path.abspath(core.REPO_SRC) + os.sep
            if "error" in out:
                res.violation("import-bootstrapped-worker-did-not-come-up", f"{label}: {out['error']}")
            elif not os.path.abspath(out.get("worker", "")).startswith(want):
                res.violation("import-bootstrapped-worker-runs-another-execnet", f"{label}: initiator uses {out['master']}, its worker {out.get('worker')}")
            elif out.get("echo") != 42:
                res.violation("import-bootstrapped-worker-misbehaves", f"{label}: {out}")
            elif len(res.samples) < 2:
                res.sample({"import_bootstrap": label, "worker_execnet": out["worker"]})
    return res


def tempfile_dir():
    import tempfile

    return tempfile.gettempdir()


def run_standalone(spec):
    import execnet

    res = Result()
    script = os.path.join(core.REPO_SRC, "execnet", "script", "socketserver.py")
    import threading

    def one(py):
        s = socket.socket()
        s.bind(("127.0.0.1", 0))
        port = s.getsockname()[1]
        s.close()
        # run a *copy* of the script from an empty directory: nothing of execnet next to it
        import shutil
        import tempfile

        d = tempfile.mkdtemp(prefix="verif-c15-")
        shutil.copy(script, os.path.join(d, "socketserver.py"))
        p = subprocess.Popen([py, "-S", "-E", os.path.join(d, "socketserver.py"), f"127.0.0.1:{port}"], cwd=d, stdout=subprocess.PIPE,
                             stderr=subprocess.STDOUT, env={"PATH": os.environ.get("PATH", "")})
        label = f"standalone socketserver on {py}"
        try:
            up = False
            t0 = time.monotonic()
            while time.monotonic() - t0 < 10 and p.poll() is None:
                try:
                    c = socket.create_connection(("127.0.0.1", port), timeout=0.2)
                    c.close()
                    up = True
                    break
                except OSError:
                    time.sleep(0.05)
            res.count("standalone_server_runs")
            res.case(core.h64("standalone", py))
            if not up:
                out = b""
                try:
                    p.kill()
                    out = p.stdout.read()
                except Exception:
                    pass
                res.violation("standalone-socketserver-does-not-start", f"{label}: exit={p.poll()} output={out.decode('utf-8', 'replace')[-500:]}")
                return
            # the probing connection consumed one accept; the server loops
            group = execnet.Group()
            try:
                gw = group.makegateway(f"socket=127.0.0.1:{port}")
                imp = gw.remote_exec(PROBE).receive(30)
                if imp[0] != "ImportError":
                    res.inconclusive.append(f"{label}: execnet {imp[0]}")
                ch = gw.remote_exec("channel.send(channel.receive() * 2)")
                ch.send(21)
                if ch.receive(30) != 42:
                    res.violation("standalone-socketserver-gateway-broken", label)
                # like any worker it is still there after the connection has been quiet for a while (a master with nothing
                # to say, a remote computation that takes its time)
                slow = gw.remote_exec("import time\ntime.sleep(%s)\nchannel.send('took my time')" % QUIET)
                time.sleep(QUIET)
                try:
                    said = slow.receive(30)
                    after = gw.remote_exec("channel.send(6 * 7)").receive(30)
                except BaseException as e:  # noqa
                    said, after = f"{type(e).__name__}: {str(e)[-150:]}", None
                res.count("quiet_seconds_on_standalone_servers", int(QUIET))
                if (said, after) != ("took my time", 42):
                    res.violation("standalone-socketserver-worker-gone-after-quiet-period", f"{label}: after {QUIET}s without traffic: {said!r}, then {after!r}")
                seen, mods, hits = gw.remote_exec(FINAL).receive(30)
                if seen or mods:
                    res.violation("standalone-socketserver-imported-execnet", f"{label}: {seen[:4]} {mods[:4]}")
                res.sample({"standalone": py, "served_gateway": True})
            except BaseException as e:
                res.violation(f"standalone-socketserver-gateway-failed:{type(e).__name__}", f"{label}: {str(e)[-300:]}")
            finally:
                group.terminate(3.0)
        finally:
            try:
                p.kill()
            except OSError:
                pass
            shutil.rmtree(d, ignore_errors=True)

    ths = [threading.Thread(target=one, args=(py,)) for py in spec["pythons"]]
    for t in ths:
        t.start()
    for t in ths:
        t.join(140)
    if any(t.is_alive() for t in ths):
        res.inconclusive.append("standalone server run did not finish within 140 s")
    return res


QUIET = 11.5


def run_cmdlines(spec):
    import execnet
    from execnet.gateway_io import popen_args, popen_bootstrapline, ssh_args, vagrant_ssh_args

    res = Result()
    for s, fn in (("ssh=user@host//python=python3.11", ssh_args), ("vagrant_ssh=default//python=python3", vagrant_ssh_args),
                  ("popen//python=/usr/bin/python3 -S -E", popen_args)):
        args = fn(execnet.XSpec(s))
        res.case(core.h64("cmdline", s))
        res.evaluations += 0
        if not any(popen_bootstrapline in a for a in args):
            res.violation("command-line-lacks-bootstrap-line", f"{s}: {args}")
        if any("execnet" in a for a in args):
            res.violation("command-line-refers-to-execnet", f"{s}: {args}")
    if "execnet" in popen_bootstrapline:
        res.violation("bootstrap-line-imports-execnet", popen_bootstrapline)
    res.sample({"bootstrap_line": popen_bootstrapline})
    return res
