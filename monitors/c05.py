"""C05 - Group.terminate(timeout) returns promptly and leaves no local child behind."""

from __future__ import annotations

import json
import os
import subprocess
import tempfile
import threading
import time

from vlib import core
from vlib import procs
from vlib.core import Result
from vlib.core import short

ID = "C05"
LEVEL = "exploration"
RULE = ("each case runs in a fresh initiator process: topology (1-4 gateways over popen / popen//python= / socket//installvia / popen//via), "
        "worker exec model (thread, main_thread_only, gevent), remote state per gateway (idle, blocked in receive, busy, sleeping, catching or "
        "ignoring interrupts, SIGSTOPped, already SIGKILLed, daemon threads, flooding a channel), EOF although alive: descriptors closed or execv into another program), timeout in {0, 0.1, 0.5, 1.0}; then "
        "group.terminate(timeout). Observed: return time, len(group), /proc liveness of every locally started child pid (logged by a wrapped "
        "subprocess.Popen). Plus failing makegateway calls (taken explicit id, explicit id colliding with a later auto id, dead interpreter). "
        "distinct = distinct (topology, states, models, timeout) cases")
ASSUMPTIONS = [
    "return bound = rounds x (3 + 2 s) x timeout + 5 s (rounds = 2 with via topologies, s = proxied gateways whose master was stopped/killed); "
    "the constant absorbs scheduling on a loaded machine",
    "a child that is a zombie at return counts as exited; liveness is polled for at most 1 s after return",
    "sub-processes behind via= gateways are started by another process: their liveness is recorded here and judged under C16",
]
MINIMUM = {"terminate_cases": 20, "distinct": 15, "failing_makegateway_cases": 3}
SHARD_TIMEOUT = {"quick": 240, "thorough": 3000}
PAR = 8

STATES = ["idle", "blocked", "busy", "sleep", "swallow_kbi", "sigint_ignored", "stopped", "killed", "daemon_threads", "flood",
          "fds_closed_alive", "execv_sleep", "killed_pipe_held"]
GEVENT_STATES = ["idle", "blocked", "gevent_sleep", "gevent_busy"]


def shards(tier, seed):
    n = 6 if tier == "quick" else 8
    out = [{"kind": "terminate", "cases": 5 if tier == "quick" else 150, "conc": 5 if tier == "quick" else 8} for _ in range(n)]
    out.append({"kind": "failing", "reps": 1 if tier == "quick" else 10})
    return out


MASTER_STATES = ["idle", "blocked", "busy", "sleep", "stopped", "killed", "daemon_threads", "flood"]


def gen_case(rng):
    ng = rng.choice((1, 1, 2, 3, 4))
    gws = []
    has_via = False
    for i in range(ng):
        model = rng.choice(("thread", "thread", "main_thread_only", "gevent"))
        state = rng.choice(GEVENT_STATES if model == "gevent" else STATES)
        spec = rng.choice(("popen", "python")) if i == 0 else rng.choice(("popen", "python", "via", "socket"))
        g = {"spec": spec, "id": f"g{i}", "execmodel": model, "activity": state}
        if spec in ("via", "socket"):
            # a master must use the thread model (a main_thread_only master is occupied by the forwarder/server loop:
            # documented limitation) and its main thread is taken, so no state that needs the main thread
            m = gws[0]
            m["execmodel"] = "thread"
            if m["activity"] not in MASTER_STATES:
                m["activity"] = rng.choice(MASTER_STATES)
            g["master"] = m["id"]
            if spec == "socket":
                g["execmodel"] = "thread"
                if g["activity"].startswith("gevent") or g["activity"] == "sigint_ignored":
                    g["activity"] = "blocked"
                if g["activity"] in ("stopped", "killed", "fds_closed_alive", "execv_sleep", "killed_pipe_held"):
                    g["activity"] = "sleep"  # same process as the master: would stop/kill/replace the master itself
            has_via |= spec == "via"
        gws.append(g)
    # some members are retired with gw.exit() before terminate() is called (only gateways nobody else depends on)
    masters = {g.get("master") for g in gws}
    pre_exit = [g["id"] for g in gws if g["id"] not in masters and g["spec"] != "socket" and rng.random() < 0.25]
    if len(pre_exit) == len(gws):
        pre_exit = pre_exit[:-1]
    return {"gateways": gws, "action": "terminate", "timeout": rng.choice((0, 0.1, 0.5, 1.0)), "has_via": has_via, "pre_exit": pre_exit,
            "pre_exit_replace": [g for g in pre_exit if rng.random() < 0.5]}


def bound_for(case):
    masters_bad = 0
    by_id = {g["id"]: g for g in case["gateways"]}
    for g in case["gateways"]:
        if g["spec"] == "via" and by_id[g["master"]]["activity"] in ("stopped", "killed"):
            masters_bad += 1
    rounds = 2 if case["has_via"] else 1
    return rounds * (3 + 2 * masters_bad) * case["timeout"] + 5.0


def run_initiator(case, out, wait_for="terminate_done", total_timeout=None):
    if total_timeout is None:
        total_timeout = 45 + (bound_for(case) if case.get("action") == "terminate" else 0)
    tag = procs.new_tag()
    d = tempfile.mkdtemp(prefix="verif-c05-")
    cf = os.path.join(d, "case.json")
    with open(cf, "w") as f:
        json.dump(case, f)
    errf = open(os.path.join(d, "stderr.txt"), "wb")
    extra_env = {"VERIF_TAG": tag}
    if case.get("variant") == "concurrent_auto":
        extra_env["EXECNET_VERIF"] = "noise:%d:0.1:2" % (hash(tag) & 0xFFFF)  # line-level schedule noise inside the initiator
    p = subprocess.Popen([core.PY, "-m", "vlib.initiator", cf], cwd=core.VERIF, env=core.child_env(extra_env),
                         stdout=subprocess.PIPE, stderr=errf, stdin=subprocess.DEVNULL, start_new_session=True)
    events = []
    got = threading.Event()
    snap = {}

    def reader():
        for line in p.stdout:
            try:
                e = json.loads(line)
            except ValueError:
                continue
            e["_t"] = time.monotonic()
            events.append(e)
            if e.get("event") == "initiator_error":
                snap["initiator_error"] = e["error"] + " | " + e.get("tb", "")[-300:]
                got.set()
            if e.get("event") == wait_for:
                # observe /proc while the initiator is still alive (it lingers ~1.5 s)
                local = [x["pid"] for x in events if x.get("event") == "popen_pid"]
                t0 = time.monotonic()
                alive = [x for x in local if procs.alive(x)]
                while alive and time.monotonic() - t0 < 1.0:
                    time.sleep(0.02)
                    alive = [x for x in local if procs.alive(x)]
                snap["local"] = local
                snap["local_alive"] = [(x, procs.state(x), procs.cmdline(x)[:60]) for x in alive]
                snap["tagged_alive"] = [(x, procs.cmdline(x)[:60]) for x in procs.tagged_pids(tag) if x != p.pid and procs.alive(x) and x not in local]
                got.set()

    rt = threading.Thread(target=reader, daemon=True)
    rt.start()
    result = {"case": case}
    try:
        ready_seen = lambda: any(e.get("event") == "ready" for e in events)
        t0 = time.monotonic()
        while not got.is_set():
            # after 'ready' only terminate() itself is outstanding: its own bound (+10 s) is what we wait for
            limit = total_timeout if not ready_seen() else None
            if limit is None:
                tr = next(e["_t"] for e in events if e.get("event") == "ready")
                if time.monotonic() - tr > (bound_for(case) + 10 if case.get("action") == "terminate" else 30):
                    break
            elif time.monotonic() - t0 > limit:
                break
            got.wait(0.1)
        if not got.is_set():
            result["harness_timeout"] = True
            result["harness_error"] = f"no {wait_for} event within {total_timeout}s; events={[e.get('event') for e in events][-6:]} stderr={_tail(errf.name)}"
        result["events"] = events
        result.update(snap)
        if "initiator_error" in snap:
            result["harness_error"] = "initiator failed during set-up: " + snap["initiator_error"]
    finally:
        out.append(result)
        try:
            p.wait(5)
        except Exception:
            pass
        procs.kill_all(tag)
        try:
            p.kill()
        except OSError:
            pass
        errf.close()
        import shutil

        shutil.rmtree(d, ignore_errors=True)


def _tail(path, n=500):
    try:
        with open(path, "rb") as f:
            return f.read()[-n:].decode("utf-8", "replace")
    except OSError:
        return ""


def run_shard(spec):
    if spec["kind"] == "failing":
        return run_failing(spec)
    res = Result()
    rng = core.rng_for("C05", spec["tier"], spec["seed"], spec["shard"])
    cases = [gen_case(rng) for _ in range(spec["cases"])]
    if spec["shard"] == 0:
        # the recorded finding (terminate-did-not-return:via-master-stopped) is exercised in every run, with a shorter
        # harness deadline than the 45 s + bound used for generated cases: it is known to hang
        cases[0] = {"gateways": [{"spec": "popen", "id": "g0", "execmodel": "thread", "activity": "stopped"},
                                 {"spec": "via", "id": "g1", "execmodel": "thread", "activity": "idle", "master": "g0"}],
                    "action": "terminate", "timeout": 0.1, "has_via": True, "pre_exit": [], "deadline": 25}
    if spec["shard"] == 1:
        # members whose connection has ended although the process lives on; timeout 0 with a member that cannot be killed locally
        cases[0] = {"gateways": [{"spec": "popen", "id": "g0", "execmodel": "thread", "activity": "execv_sleep"},
                                 {"spec": "python", "id": "g1", "execmodel": "main_thread_only", "activity": "fds_closed_alive"}],
                    "action": "terminate", "timeout": 0.5, "has_via": False, "pre_exit": []}
        cases[1] = {"gateways": [{"spec": "popen", "id": "g0", "execmodel": "thread", "activity": "stopped"},
                                 {"spec": "socket", "id": "g1", "execmodel": "thread", "activity": "idle", "master": "g0"}],
                    "action": "terminate", "timeout": 0, "has_via": False, "pre_exit": []}
        # a proxied member that is dead although its relay has not seen the end of its output
        cases[3] = {"gateways": [{"spec": "popen", "id": "g0", "execmodel": "thread", "activity": "idle"},
                                 {"spec": "via", "id": "g1", "execmodel": "thread", "activity": "killed_pipe_held", "master": "g0"}],
                    "action": "terminate", "timeout": 0.5, "has_via": True, "pre_exit": []}
        # stuck members retired with exit(), their ids taken over by replacements before terminate() runs
        cases[2] = {"gateways": [{"spec": "popen", "id": "g0", "execmodel": "thread", "activity": "stopped"},
                                 {"spec": "python", "id": "g1", "execmodel": "main_thread_only", "activity": "sigint_ignored"},
                                 {"spec": "popen", "id": "g2", "execmodel": "thread", "activity": "idle"}],
                    "action": "terminate", "timeout": 0.5, "has_via": False, "pre_exit": ["g0", "g1"], "pre_exit_replace": ["g0", "g1"]}
    if spec["shard"] == 3:
        # many members that do not come down by themselves: the time terminate() takes does not add up member by member
        cases.append({"gateways": [{"spec": "popen", "id": f"g{i}", "execmodel": "thread", "activity": "stopped"} for i in range(8)],
                      "action": "terminate", "timeout": 1.0, "has_via": False, "pre_exit": [], "tight_bound": 5.5})
    if spec["shard"] == 2:
        # a gateway that another thread finishes making while terminate() is busy with a stuck member
        cases.append({"gateways": [{"spec": "popen", "id": "g0", "execmodel": "thread", "activity": "stopped"},
                                   {"spec": "popen", "id": "g1", "execmodel": "thread", "activity": "idle"}],
                      "action": "terminate", "timeout": 3.0, "has_via": False, "pre_exit": [], "makegateway_during_terminate": 0.3})
    if spec["shard"] == 1:
        # the forwarder of a proxied member is stopped when terminate() begins and is killed two seconds into it
        cases.append({"gateways": [{"spec": "popen", "id": "g0", "execmodel": "thread", "activity": "stopped"},
                                   {"spec": "via", "id": "g1", "execmodel": "thread", "activity": "idle", "master": "g0"},
                                   {"spec": "popen", "id": "g2", "execmodel": "thread", "activity": "sleep"}],
                      "action": "terminate", "timeout": 1.0, "has_via": True, "pre_exit": [], "kill_during_terminate": ["g0", 2.0]})
    out: list = []
    sem = threading.Semaphore(spec["conc"])

    def guarded(c):
        with sem:
            try:
                run_initiator(c, out, total_timeout=c.get("deadline"))
            except BaseException as e:  # noqa
                out.append({"case": c, "harness_error": repr(e)})

    ths = [threading.Thread(target=guarded, args=(c,), daemon=True) for c in cases]
    for t in ths:
        t.start()
    for t in ths:
        t.join(SHARD_TIMEOUT[spec["tier"]] - 20)
    worst = {}
    for r in out:
        c = r["case"]
        key = "+".join(f"{g['spec']}/{g['execmodel']}/{g['activity']}" for g in c["gateways"]) + f"@{c['timeout']}"
        if "harness_error" in r:
            hung = r.get("harness_timeout") and any(e.get("event") == "ready" for e in r.get("events", []))
            if hung:
                by_id = {g["id"]: g for g in c["gateways"]}
                via_master_stopped = any(g["spec"] == "via" and by_id[g["master"]]["activity"] == "stopped" for g in c["gateways"])
                res.violation("terminate-did-not-return:via-master-stopped" if via_master_stopped else "terminate-did-not-return",
                              f"{key}: {r['harness_error'][:400]}")
                res.count("terminate_cases")
            else:
                res.inconclusive.append(f"{key}: {r['harness_error'][:500]}")
            continue
        res.count("terminate_cases")
        res.case(core.h64(key))
        td = next(e for e in r["events"] if e.get("event") == "terminate_done")
        bound = bound_for(c)
        worst[str(c["timeout"])] = max(worst.get(str(c["timeout"]), 0), td["seconds"])
        if len(res.samples) < 4:
            res.sample({"case": key, "terminate_s": td["seconds"], "bound_s": bound, "local_children": len(r.get("local", []))})
        states = ",".join(sorted({g["activity"] for g in c["gateways"]}))
        if c.get("tight_bound") and td["seconds"] > c["tight_bound"]:
            res.violation("terminate-time-grows-with-the-number-of-stuck-members", f"{key}: {len(c['gateways'])} stuck members, terminate({c['timeout']}) took {td['seconds']}s")
        if td["seconds"] > bound:
            res.violation(f"terminate-too-slow:{'via' if c['has_via'] else 'direct'}", f"{key}: {td['seconds']}s > bound {bound}s")
        lm = next((e for e in r["events"] if e.get("event") == "late_makegateway"), None)
        if lm is not None:
            res.count("gateways_made_while_terminate_ran")
            if not lm["finished_before_terminate_returned"]:
                # made after terminate() was through: whatever it left is the caller's to clean up, not terminate's
                r["local_alive"] = []
                td["len_group"] = 0
        if td.get("raised"):
            res.violation("terminate-raised:" + td["raised"].split(":", 1)[0], f"{key}: {td['raised']}")
        if td["len_group"] != 0:
            res.violation("group-not-empty-after-terminate", f"{key}: len(group)={td['len_group']}")
        if r.get("local_alive"):
            res.violation("local-child-alive-after-terminate", f"{key}: {r['local_alive']}")
        if r.get("tagged_alive"):
            res.count("nonlocal_descendants_alive_at_return", len(r["tagged_alive"]))
    res.info["worst_terminate_s_by_timeout"] = worst
    return res


LINGERING_SUB = """
import os, threading, time
threading.Thread(target=time.sleep, args=(6.0,)).start()   # non-daemon: the interpreter outlives its connection
channel.send(os.getpid())
"""


def master_dies_during_terminate(res, delay):
    """the forwarding process of a via gateway is SIGKILLed while terminate() waits, through it, for a proxied worker that has
    closed its connection but not exited yet: terminate() still returns (no exception), within its bound, the group is
    empty and none of this process's own children is left"""
    import signal

    import execnet

    label = f"via master SIGKILLed {delay}s into terminate(3.0), proxied worker lingering after it closed its connection"
    group = execnet.Group()
    pids = []
    killer = None
    try:
        master = group.makegateway("popen//id=master")
        sub = group.makegateway("popen//via=master//id=sub")
        other = group.makegateway("popen//id=other")
        getpid = "import os; channel.send(os.getpid())"
        pids.append(master.remote_exec(getpid).receive(20))
        pids.append(other.remote_exec(getpid).receive(20))
        pids.append(sub.remote_exec(LINGERING_SUB).receive(20))
        killer = threading.Timer(delay, os.kill, (pids[0], signal.SIGKILL))
        killer.start()
        t0 = time.monotonic()
        raised = None
        try:
            group.terminate(timeout=3.0)
        except BaseException as e:  # noqa
            raised = e
        elapsed = time.monotonic() - t0
        res.count("terminate_with_master_dying_meanwhile")
        res.case(core.h64("master-dies", delay))
        if raised is not None:
            res.violation(f"terminate-raised:master-killed-meanwhile:{type(raised).__name__}", f"{label}: {str(raised)[-200:]}")
        if len(group):
            res.violation("group-not-empty-after-terminate:master-killed-meanwhile", f"{label}: {[g.id for g in group]}")
        if elapsed > 2 * 3.0 + 6:
            res.violation("terminate-slow:master-killed-meanwhile", f"{label}: {elapsed:.1f}s")
        if raised is None:
            # judged like everywhere in this check: the children this process started itself (master, other); the proxied
            # worker is a child of the dead master, nobody is left who could be asked to kill it
            deadline = time.monotonic() + 3
            own = pids[:2]
            alive = own
            while time.monotonic() < deadline:
                alive = [p for p in own if procs.alive(p)]
                if not alive:
                    break
                time.sleep(0.05)
            if alive:
                res.violation("child-left-after-terminate:master-killed-meanwhile", f"{label}: {len(alive)} of {len(own)} own children still alive")
    except BaseException as e:  # noqa
        res.inconclusive.append(f"{label}: harness: {type(e).__name__}: {str(e)[-300:]}")
    finally:
        if killer is not None:
            killer.cancel()
        for p in pids:
            try:
                os.kill(p, signal.SIGKILL)
            except OSError:
                pass
        try:
            group.terminate(1.0)
        except BaseException:  # noqa
            pass



def run_failing(spec):
    res = Result()
    for delay in (0.5, 0.7, 0.9) if spec["reps"] == 1 else (0.3, 0.5, 0.6, 0.7, 0.8, 0.9, 1.2, 2.0):
        master_dies_during_terminate(res, delay)
    variants = ["dup_explicit", "dup_explicit_python", "explicit_equals_next_auto", "dead_interpreter", "via_dup",
                "chdir_is_file", "nice_not_a_number", "chdir_missing_parent", "concurrent_auto", "concurrent_auto"]
    late = {"chdir_is_file", "nice_not_a_number", "chdir_missing_parent", "concurrent_auto"}  # judged after the group was terminated
    out: list = []
    cases = []
    for rep in range(spec["reps"]):
        for v in variants:
            cases.append({"gateways": [{"spec": "popen", "id": "g0", "execmodel": "thread", "activity": "idle"}],
                          "action": "failing_makegateway", "variant": v, "has_via": False, "linger": 2.0})
    ths = [threading.Thread(target=run_initiator, args=(c, out, "post_terminate" if c["variant"] in late else "attempt_end", 60), daemon=True)
           for c in cases]
    for t in ths:
        t.start()
    for t in ths:
        t.join(120)
    for r in out:
        c = r["case"]
        v = c["variant"]
        if "harness_error" in r:
            res.inconclusive.append(f"failing makegateway {v}: {r['harness_error'][:400]}")
            continue
        res.count("failing_makegateway_cases")
        res.case(core.h64("failing", v))
        ev = r["events"]
        # pids started after the (last) attempt began
        begin_ix = max(i for i, e in enumerate(ev) if e.get("event") == "attempt_begin")
        during = [e["pid"] for e in ev[begin_ix:] if e.get("event") == "popen_pid"]
        end = next(e for e in ev if e.get("event") == "attempt_end")
        res.sample({"variant": v, "outcome": end["outcome"][:80], "pids_started_by_failing_call": len(during)})
        failed = not end["outcome"].startswith("returned")
        # r['local_alive'] was sampled (polled <= 1 s) right after the attempt ended, while the group still lived
        # (for the variants that fail after bootstrap: right after the group was terminated - whoever owns the
        # process by then, it must not survive the group)
        leaked = [x for x in r.get("local_alive", []) if x[0] in during]
        if v == "concurrent_auto":
            # nothing is wrong with these calls: all of them succeed, and whatever they started is gone with the group
            if failed:
                res.violation("concurrent-makegateway-failed", end["outcome"][:300])
            if leaked:
                res.violation("failed-makegateway-left-process:concurrent_auto", f"outcome={end['outcome'][:100]} alive after group.terminate(): {leaked}")
            continue
        if v in late:
            if not failed:
                res.violation(f"bad-configuration-accepted:{v}", end["outcome"])
            if leaked:
                res.violation(f"failed-makegateway-left-process:{v}", f"outcome={end['outcome'][:100]} alive after group.terminate(): {leaked}")
            pt = next((e for e in ev if e.get("event") == "post_terminate"), None)
            if pt and pt["len_group"] != 0:
                res.violation("group-not-empty-after-terminate", f"{v}: {pt['len_group']}")
            continue
        if v == "dead_interpreter":
            if leaked:
                res.violation("failed-makegateway-left-process:dead_interpreter", f"{leaked}")
            continue
        if not failed:
            res.violation(f"colliding-id-accepted:{v}", end["outcome"])
            continue
        if leaked:
            res.violation(f"failed-makegateway-left-process:{v}", f"outcome={end['outcome'][:100]} leaked={leaked}")
        notes = [e["msg"] for e in ev if e.get("event") == "note"]
        explicit = [n.split()[2] for n in notes if n.startswith("explicit id")]
        want_after = end["before"] + (explicit if v == "explicit_equals_next_auto" else [])
        if sorted(end["after"]) != sorted(want_after):
            res.violation(f"group-changed-by-failed-makegateway:{v}", f"{end['before']} -> {end['after']}")
        if v == "via_dup" and r.get("tagged_alive"):
            res.count("via_dup_nonlocal_alive", len(r["tagged_alive"]))
    return res
