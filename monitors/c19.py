"""C19 - channel files behave like files over the concatenated items."""

from __future__ import annotations

import io
import itertools

import time

from ref import codec
from vlib import core
from vlib.core import Result
from vlib.core import short

ID = "C19"
LEVEL = "exploration"
RULE = ("a case = (text or byte string, split into channel items incl. empty items, script of read(n)/readline() calls); "
        "exhaustive part: all strings over {a,\\n} up to length 4 (quick) / 6 (thorough) x all compositions x all scripts "
        "of length <= 2 (quick) / 3 (thorough) with n in 0..len+1; generated part: unicode, long lines, newlines at item "
        "borders, empty items; plus makefile('w') histories on both sides of an in-process pair. distinct = distinct cases")
ASSUMPTIONS = [
    "read() without argument and negative n are outside the documented signature read(n)",
    "io.StringIO / io.BytesIO are the file model",
]
MINIMUM = {"distinct": 3000, "read_calls": 10000, "write_histories": 20, "bytes_cases": 500}
EXHAUSTIVE = {"quick": False, "thorough": False}
SHARD_TIMEOUT = {"quick": 120, "thorough": 1800}


def shards(tier, seed):
    L = 5 if tier == "quick" else 6
    S = 2 if tier == "quick" else 3
    out = []
    nsh = 12 if tier == "quick" else 28
    for i in range(nsh):
        out.append({"kind": "exh", "maxlen": L, "maxscript": S, "part": i, "parts": nsh})
    for i in range(4 if tier == "quick" else 12):
        out.append({"kind": "gen", "n": 8000 if tier == "quick" else 400000})
    out.append({"kind": "pair", "n": 120 if tier == "quick" else 20000})
    out.append({"kind": "pair", "n": 120 if tier == "quick" else 20000})
    out.append({"kind": "eof_state", "ks": [1, 2] if tier == "quick" else [1, 2, 3, 4], "noise_runs": 60 if tier == "quick" else 2000})
    out.append({"kind": "fault_end", "n": 60 if tier == "quick" else 4000})
    return out


def compositions(s):
    """all ways to cut s into non-empty consecutive pieces"""
    n = len(s)
    if n == 0:
        yield []
        return
    for mask in range(1 << (n - 1)):
        parts = []
        start = 0
        for i in range(n - 1):
            if mask >> i & 1:
                parts.append(s[start:i + 1])
                start = i + 1
        parts.append(s[start:])
        yield parts


def model_run(data, script):
    f = io.StringIO(data) if isinstance(data, str) else io.BytesIO(data)
    out = []
    for op in script:
        out.append(f.readline() if op == "L" else f.read(op))
    return out


def same(a, b) -> bool:
    if a == b and type(a) is type(b):
        return True
    # at end of data the channel cannot know the element type: any empty result equals any empty result
    return len(a) == 0 and len(b) == 0 and isinstance(a, (str, bytes)) and isinstance(b, (str, bytes))


def run_shard(spec):
    return {"exh": run_read, "gen": run_read, "pair": run_pair, "eof_state": run_eof_state, "fault_end": run_fault_end}[spec["kind"]](spec)


def run_fault_end(spec):
    """The channel ends because the connection is lost (peer killed, no close frame): the file still behaves like a file
    holding the items that arrived - and goes on returning empty results however often the end is reached."""
    import io
    import threading

    from vlib import pairs

    res = Result()
    rng = core.rng_for("C19f", spec["tier"], spec["seed"])
    M = codec.MSG
    for run in range(spec["n"]):
        if res.enough(3):
            break
        text = rng.random() < 0.5
        pieces = ("ab", "c\n", "", "xyz\nq", "\n") if text else (b"ab", b"c\n", b"", b"xyz\nq", b"\n")
        items = [rng.choice(pieces) for _ in range(rng.randint(0, 4))]
        script = [rng.choice((0, 1, 2, 7, 100, "L")) for _ in range(rng.randint(1, 4))] + [rng.choice((1, 100, "L")) for _ in range(3)]
        peer = pairs.ScriptedPeer(tee=False, transport=("pipe", "tcp")[run % 2])
        try:
            ch = peer.gw.newchannel()
            proxyclose = rng.random() < 0.5
            f = ch.makefile("r", proxyclose=proxyclose)
            if rng.random() < 0.5:
                # a younger channel whose endmarker callback is slow: the receiver thread is still busy ending channels
                # while the reader of this one has already been woken
                slow = peer.gw.newchannel()
                slow.setcallback(lambda x: time.sleep(0.15) if x is None else None, endmarker=None)
            ending = rng.choice(("connection_loss", "connection_loss", "local_close", "garbage_frame", "undecodable_item_elsewhere"))
            bystander = peer.gw.newchannel()

            def end_it():
                if ending == "local_close":
                    ch.close()
                elif ending == "garbage_frame":
                    # the peer goes mad rather than silent: a frame with an unknown message code ends the receiving side
                    peer.feed(codec.frame(99, 0, b"garbage"))
                elif ending == "undecodable_item_elsewhere":
                    peer.feed(codec.frame(M["CHANNEL_DATA"], bystander.id, b"\xff\xfe not an item"))
                else:
                    peer.close_peer()

            ref = (io.StringIO if text else io.BytesIO)((("" if text else b"").join(items)))
            peer.feed(b"".join(codec.frame(M["CHANNEL_DATA"], ch.id, codec.encode(i, versioned=False)) for i in items))
            if ending == "local_close":
                # everything has arrived; the reading side itself closes the channel, then reads on
                pairs.wait_until(lambda: ch._items.qsize() >= len(items), 5.0)
            cut_first = rng.random() < 0.5
            if cut_first:
                end_it()
            got: list = []

            def reader():
                for c in script:
                    try:
                        got.append(f.readline() if c == "L" else f.read(c))
                    except BaseException as e:  # noqa
                        got.append(f"{type(e).__name__}: {e}")
                        return

            t = threading.Thread(target=reader, daemon=True)
            t.start()
            if not cut_first:
                time.sleep(0.01)
                end_it()
            t.join(10)
            want = [ref.readline() if c == "L" else ref.read(c) for c in script]
            res.count("read_calls", len(script))
            res.count("fault_end_runs")
            res.case(core.h64("fault_end", run, tuple(items), tuple(map(str, script))))
            label = f"items={items} script={script} proxyclose={proxyclose} {ending} {'before' if cut_first else 'during'} the reads"
            if t.is_alive():
                res.violation("channelfile-read-blocks-after-connection-loss", f"{label}: call #{len(got)} ({script[len(got)]}) did not return; so far {got}")
            elif len(got) != len(want) or any(g != w and not (len(g) == 0 and len(w) == 0) for g, w in zip(got, want)):
                # (an empty result carries no type: a file that never saw a non-empty item cannot know bytes from text)
                res.violation("channelfile-differs-from-file:after-connection-loss", f"{label}: got {got} want {want}")
        finally:
            peer.shutdown(2)
    two_files_on_one_channel(res, rng, 10 if spec["tier"] == "quick" else 300)
    res.sample({"fault_end_runs": spec["n"]})
    return res


def two_files_on_one_channel(res, rng, n):
    """several files made from one channel are separate files: each keeps the proxyclose it was made with, closing one
    says nothing about the other"""
    from vlib import chanlab

    lab = chanlab.Lab("pipe", rng.getrandbits(32))
    try:
        for i in range(n):
            mode = "w" if i % 2 else "r"
            first_proxy = bool((i // 2) % 2)
            lc, rc = lab.pair_newchannel_local()
            f1 = lc.makefile(mode, proxyclose=first_proxy)
            f2 = lc.makefile(mode, proxyclose=not first_proxy)
            label = f"makefile({mode!r}, proxyclose={first_proxy}) then makefile({mode!r}, proxyclose={not first_proxy}) on one channel"
            res.count("two_file_cases")
            res.case(core.h64("two-files", mode, first_proxy))
            closer, other = (f2, f1) if rng.random() < 0.5 else (f1, f2)
            closer_proxy = (not first_proxy) if closer is f2 else first_proxy
            closer.close()
            if lc.isclosed() != closer_proxy:
                res.violation("proxyclose-of-another-file-applied", f"{label}: closed the file made with proxyclose={closer_proxy}; channel closed: {lc.isclosed()}")
            if mode == "w":
                try:
                    other.write("x")
                    other.flush()
                    wrote = True
                except OSError:
                    wrote = False
                if wrote == closer_proxy and not (f1 is f2):
                    res.violation("write-after-close-wrong:two-files", f"{label}: after closing the proxyclose={closer_proxy} file, write on the other {'succeeded' if wrote else 'raised OSError'}")
            if not lc.isclosed():
                lc.close()
            rc.close() if not rc.isclosed() else None
    finally:
        lab.close()


def run_eof_state(spec):
    """Once a reader file has reported the end of the data (peer closed), the channel is closed for the same thread:
    a writer file on it refuses with OSError.  Driven under line noise and a single-pre-emption sweep over the code
    that processes the peer's close."""
    from execnet import gateway_base as gb
    from vlib import imodel
    from vlib import pairs

    res = Result()
    rng = core.rng_for("C19e", spec["tier"], spec["seed"])
    pre = imodel.Preempt(core.REPO_SRC)
    pre.install()
    M = codec.MSG
    try:
        lines = imodel.function_lines(gb.ChannelFactory._local_close, gb.ChannelFactory._no_longer_opened, gb.ChannelFileRead.read,
                                      gb.Channel.receive, gb.Message._channel_close)
        todo = [(ln, k) for ln in lines for k in spec["ks"]] + [(None, i) for i in range(spec["noise_runs"])]
        peer = pairs.ScriptedPeer(tee=False)
        peer.start_drain()
        wd = pairs.Watchdog()
        for ln, k in todo:
            if res.enough(3):
                break
            ch = peer.gw.newchannel()
            items = [rng.choice(("ab", "c\n", "")) for _ in range(rng.randint(0, 3))]
            f = ch.makefile("r")
            w = ch.makefile("w")
            if ln is None:
                pre.set_noise(rng.getrandbits(32), 0.2)
            else:
                pre.restart()
                pre.set_sweep(ln[0], ln[1], k, stall=0.03)

            def reader():
                out = []
                while True:
                    x = f.read(2)
                    if not x:
                        break
                    out.append(x)
                # the end of the data has been reported to this thread: from here on the channel is closed for it
                st = {"data": "".join(out), "isclosed": ch.isclosed(), "repr_open": "open" in repr(f)}
                try:
                    w.write("late")
                    st["write"] = "accepted"
                except OSError:
                    st["write"] = "OSError"
                return st

            import threading

            box = []
            t = threading.Thread(target=lambda: box.append(reader()), daemon=True)
            t.start()
            peer.feed(b"".join(codec.frame(M["CHANNEL_DATA"], ch.id, codec.encode(i, versioned=False)) for i in items)
                      + codec.frame(M["CHANNEL_CLOSE"], ch.id))
            t.join(10)
            pre.off()
            res.count("read_calls", 1)
            res.count("eof_state_runs")
            res.case(core.h64("eof_state", ln, k, tuple(items)))
            label = f"items={items} " + (f"stall at line {ln[1]} hit {k}" if ln else f"noise run {k}")
            if not box:
                res.violation("channelfile-read-blocks", label)
                continue
            st = box[0]
            if st["data"] != "".join(items):
                res.violation("channelfile-differs-from-file:read:text", f"{label}: {st['data']!r}")
            if st["write"] != "OSError" or not st["isclosed"] or st["repr_open"]:
                res.violation("write-after-close-accepted" if st["write"] != "OSError" else "file-reports-eof-but-channel-open", f"{label}: {st}")
        res.sample({"eof_state_runs": len(todo)})
        peer.shutdown()
    finally:
        pre.uninstall()
    return res


def cases_exh(spec):
    ops_for = lambda n: list(range(0, n + 2)) + ["L"]
    idx = 0
    for L in range(0, spec["maxlen"] + 1):
        for chars in itertools.product("a\n", repeat=L):
            s = "".join(chars)
            for comp in compositions(s):
                idx += 1
                if idx % spec["parts"] != spec["part"]:
                    continue
                ops = ops_for(L)
                for sl in range(1, spec["maxscript"] + 1):
                    for script in itertools.product(ops, repeat=sl):
                        yield s, comp, list(script)
                # the same with an empty item somewhere
                if comp:
                    for pos in (0, len(comp) // 2, len(comp)):
                        c2 = comp[:pos] + [""] + comp[pos:]
                        for script in itertools.product(ops, repeat=1):
                            yield s, c2, list(script) + ["L"]


def cases_gen(spec, rng):
    for _ in range(spec["n"]):
        n = rng.choice((0, 1, 2, 5, 10, 40, 200))
        alpha = rng.choice(["a\n", "ab\n\r", "aé日\n", "x\n\n\n", "abc", "\n", "a\U0001f600\n "])
        s = "".join(rng.choice(alpha) for _ in range(n))
        cuts = sorted(rng.sample(range(len(s) + 1), min(len(s) + 1, rng.choice((0, 1, 2, 3, 8)))))
        comp = []
        prev = 0
        for c in cuts:
            comp.append(s[prev:c])  # may be empty
            prev = c
        comp.append(s[prev:])
        if rng.random() < 0.3:
            comp.insert(rng.randrange(len(comp) + 1), "")
        script = []
        for _ in range(rng.randint(1, 8)):
            k = rng.random()
            script.append("L" if k < 0.4 else rng.choice((0, 1, 1, 2, 3, 7, len(s), len(s) + 1, len(s) + 5, rng.randint(0, max(1, len(s))))))
        yield s, comp, script


def run_read(spec):
    from vlib import pairs

    res = Result()
    rng = core.rng_for("C19", spec["tier"], spec["seed"], spec["shard"])
    peer = pairs.ScriptedPeer(tee=False)
    peer.start_drain()
    wd = pairs.Watchdog()
    M = codec.MSG
    it = cases_exh(spec) if spec["kind"] == "exh" else cases_gen(spec, rng)
    ncase = 0
    for s, comp, script in it:
        for as_bytes in ((False, True) if (ncase % 3 == 0) else (False,)):
            ncase += 1
            data = s.encode("utf-8") if as_bytes else s
            items = [c.encode("utf-8") for c in comp] if as_bytes else comp
            if as_bytes:
                script = [op if op == "L" else op for op in script]
                res.count("bytes_cases")
            res.case(core.h64(as_bytes, s, tuple(comp), tuple(script)))
            if ncase < 4:
                res.sample({"items": items if not as_bytes else [i.decode() for i in items], "bytes": as_bytes, "script": script})
            ch = peer.gw.newchannel()
            frames = b"".join(codec.frame(M["CHANNEL_DATA"], ch.id, codec.encode(i, versioned=False)) for i in items)
            sendonly_end = ncase % 7 == 3  # the peer dropped its end but keeps listening: EOF for us, sending still allowed
            proxyclose = ncase % 5 == 2
            frames += codec.frame(M["CHANNEL_LAST_MESSAGE" if sendonly_end else "CHANNEL_CLOSE"], ch.id)
            peer.feed(frames)
            f = ch.makefile("r", proxyclose=proxyclose)
            want = model_run(data, script)
            extra = 3

            def run():
                out = []
                for op in script:
                    out.append(("ok", f.readline() if op == "L" else f.read(op)))
                for _ in range(extra):  # after the end: empty results, no blocking
                    out.append(("ok", f.read(3)))
                    out.append(("ok", f.readline()))
                return out

            try:
                got = wd.call(run, 10.0)
            except BaseException as e:
                where = "readline" if "L" in script else "read"
                res.violation(f"channelfile-raises:{type(e).__name__}:{'bytes' if as_bytes else 'text'}",
                              f"{type(e).__name__}: {e}; items={items!r} script={script}")
                continue
            if got is wd.TIMEOUT:
                res.violation("channelfile-read-blocks", f"items={items!r} script={script}")
                continue
            res.count("read_calls", len(got))
            if sendonly_end:
                # reading to the end must not close the channel behind the caller's back unless proxyclose was asked for
                res.count("sendonly_end_cases")
                reached_eof = bool(got) and len(got[-1][1]) == 0
                if ch.isclosed() and not proxyclose or (reached_eof and proxyclose and not ch.isclosed()):
                    res.violation("reading-to-eof-closed-the-channel" if ch.isclosed() else "proxyclose-file-did-not-close-channel",
                                  f"proxyclose={proxyclose} isclosed={ch.isclosed()} items={items!r} script={script}")
                if not proxyclose:
                    try:
                        ch.send("still-open")
                    except OSError as e:
                        res.violation("reading-to-eof-closed-the-channel", f"send after EOF -> {e}; items={items!r} script={script}")
            vals = [g[1] for g in got]
            # model: remaining calls at the end all return empty
            rest_model = model_run(data, script + [3, "L"] * extra)
            ok = len(vals) == len(rest_model) and all(same(a, b) for a, b in zip(vals, rest_model))
            if not ok:
                j = next((k for k, (a, b) in enumerate(zip(vals, rest_model)) if not same(a, b)), -1)
                opj = (script + [3, "L"] * extra)[j]
                res.violation(f"channelfile-differs-from-file:{'readline' if opj == 'L' else 'read'}:{'bytes' if as_bytes else 'text'}",
                              f"items={items!r} script={script}: call #{j} ({opj}) got {vals[j]!r} want {rest_model[j]!r}")
    peer.shutdown()
    return res


REMOTE = r"""
import io
mode, payload = channel.receive()
c2 = channel.gateway.newchannel()
channel.send(c2)
if mode == "remote_write":
    items, proxyclose = payload
    f = c2.makefile("w", proxyclose=proxyclose)
    log = []
    for it in items:
        f.write(it)
        f.flush()
    f.close()
    log.append(("closed_after_close", c2.isclosed()))
    if not c2.isclosed():
        c2.close()
    try:
        f.flush()
        log.append(("late_flush", "harmless"))
    except BaseException as e:
        log.append(("late_flush", type(e).__name__))
    try:
        f.write("late")
        log.append(("late_write", "accepted"))
    except OSError:
        log.append(("late_write", "OSError"))
    except BaseException as e:
        log.append(("late_write", type(e).__name__))
    channel.send(log)
elif mode == "remote_read":
    script = payload
    f = c2.makefile("r")
    out = []
    for op in script:
        out.append(f.readline() if op == "L" else f.read(op))
    channel.send(out)
elif mode == "collect":
    channel.send(list(c2))
elif mode == "remote_read_own":
    script = payload
    f = channel.makefile("r")
    out = []
    try:
        for op in script:
            out.append(f.readline() if op == "L" else f.read(op))
        for _ in range(2):
            out.append(f.read(3))
        c2.send(("ok", out))
    except BaseException as e:
        c2.send(("raised", type(e).__name__ + ": " + str(e)))
"""


def run_pair(spec):
    from vlib import pairs
    from vlib import values

    res = Result()
    rng = core.rng_for("C19p", spec["tier"], spec["seed"], spec["shard"])
    pair = pairs.Pair("pipe" if spec["shard"] % 2 else "tcp")
    gw = pair.gw
    g = values.Gen(rng, max_bytes=300, huge_ints=False)
    for i in range(spec["n"]):
        mode = ("local_write", "remote_write", "remote_read", "remote_read_own")[i % 4]
        res.case(core.h64("pair", mode, i, spec["shard"]))
        try:
            if i % 8 == 5:
                # the other side has ended the channel with an error nobody has looked at yet: a write is still refused as a
                # write on a closed file (OSError), and the error stays where it is for whoever asks the channel
                from execnet.gateway_base import RemoteError

                ech = gw.remote_exec(rng.choice(("raise ValueError('the peer fails')", "channel.close('the peer gives up')")))
                ef = ech.makefile("w", proxyclose=rng.random() < 0.5)
                pairs.wait_until(ech.isclosed, 10.0)
                res.count("writes_after_an_error_close_by_the_peer")
                try:
                    ef.write("late")
                    ef.flush()
                    res.violation("write-after-close-accepted", "after the peer closed with an error")
                except OSError:
                    pass
                except BaseException as e:  # noqa
                    res.violation(f"write-after-close-wrong-exception:{type(e).__name__}", f"after the peer closed with an error: {str(e)[-120:]}")
                try:
                    ech.waitclose(10)
                    res.violation("error-of-the-peer-consumed-by-a-write", "waitclose() after the refused write returned normally")
                except RemoteError:
                    pass
                except BaseException as e:  # noqa
                    res.violation("error-of-the-peer-consumed-by-a-write", f"waitclose() after the refused write: {type(e).__name__}")
            if mode == "local_write":
                # written objects arrive one per write, in order (any serialisable object may be written)
                items = [rng.choice([g.gen_str(), g.gen_bytes(), "", "line\n", g.value(4)]) for _ in range(rng.randint(0, 8))]
                proxyclose = rng.random() < 0.5
                ch = gw.remote_exec(REMOTE)
                ch.send(("collect", None))
                c2 = ch.receive(10)
                f = c2.makefile("w", proxyclose=proxyclose)
                for it in items:
                    f.write(it)
                    if rng.random() < 0.5:
                        f.flush()
                f.flush()
                f.close()
                if c2.isclosed() != proxyclose:
                    res.violation("file-close-vs-proxyclose", f"proxyclose={proxyclose} isclosed={c2.isclosed()}")
                if not c2.isclosed():
                    c2.close()
                # flush stays harmless whatever became of the channel (callers such as logging handlers, print(flush=True)
                # or the interpreter's exit-time flush know nothing about channels)
                for _ in range(2):
                    try:
                        f.flush()
                    except BaseException as e:  # noqa
                        res.violation(f"flush-raised-after-close:{type(e).__name__}", f"local, proxyclose={proxyclose}: {e}")
                        break
                try:
                    f.write("late")
                    res.violation("write-after-close-accepted", "local")
                except OSError:
                    pass
                except BaseException as e:
                    res.violation(f"write-after-close-wrong-exception:{type(e).__name__}", "local")
                got = ch.receive(10)
                ch.waitclose(10)
                if values.canon(got) != values.canon(items):
                    res.violation("written-items-differ", f"sent {short(items)} got {short(got)}")
                res.count("write_histories")
            elif mode == "remote_write":
                items = [rng.choice([g.gen_str(), g.gen_bytes(), "", "x\n"]) for _ in range(rng.randint(0, 8))]
                proxyclose = rng.random() < 0.5
                ch = gw.remote_exec(REMOTE)
                ch.send(("remote_write", (items, proxyclose)))
                c2 = ch.receive(10)
                got = []
                try:
                    while True:
                        got.append(c2.receive(10))
                except EOFError:
                    pass
                log = dict(ch.receive(10))
                ch.waitclose(10)
                if values.canon(got) != values.canon(items):
                    res.violation("written-items-differ", f"remote wrote {short(items)} got {short(got)}")
                if log.get("closed_after_close") != proxyclose:
                    res.violation("file-close-vs-proxyclose", f"remote proxyclose={proxyclose} log={log}")
                if log.get("late_flush") != "harmless":
                    res.violation(f"flush-raised-after-close:{log.get('late_flush')}", "remote")
                if log.get("late_write") != "OSError":
                    res.violation("write-after-close-accepted" if log.get("late_write") == "accepted" else f"write-after-close-wrong-exception:{log.get('late_write')}", "remote")
                res.count("write_histories")
            elif mode == "remote_read_own":
                # the remote code reads the very channel it was started with, to the end and beyond
                s, comp, script = next(cases_gen({"n": 1}, rng))
                ch = gw.remote_exec(REMOTE)
                ch.send(("remote_read_own", script))
                c2 = ch.receive(10)
                try:
                    for it in comp:
                        ch.send(it)
                    ch.close()
                except OSError:
                    res.count("remote_reader_left_early")  # the body finished (short script): its channel closed by itself
                status, got = c2.receive(10)
                want = model_run(s, script + [3, 3])
                res.count("read_calls", len(got) if status == "ok" else 0)
                if status != "ok":
                    res.violation("channelfile-read-raised-at-eof:remote-own-channel", f"items={comp!r} script={script}: {got}")
                elif not (len(got) == len(want) and all(same(a, b) for a, b in zip(got, want))):
                    res.violation("channelfile-differs-from-file:remote-own-channel", f"items={comp!r} script={script} got {got!r} want {want!r}")
            else:
                s, comp, script = next(cases_gen({"n": 1}, rng))
                ch = gw.remote_exec(REMOTE)
                ch.send(("remote_read", script))
                c2 = ch.receive(10)
                try:
                    for it in comp:
                        c2.send(it)
                    c2.close()
                except OSError:
                    # the remote script finished early and dropped its end: legitimate
                    res.count("remote_reader_left_early")
                got = ch.receive(10)
                ch.waitclose(10)
                want = model_run(s, script)
                res.count("read_calls", len(got))
                if not (len(got) == len(want) and all(same(a, b) for a, b in zip(got, want))):
                    res.violation("channelfile-differs-from-file:remote-side", f"items={comp!r} script={script} got {got!r} want {want!r}")
        except BaseException as e:
            res.violation(f"pair-history-raised:{type(e).__name__}:{mode}", f"{e}")
            break
    res.sample({"pair_modes": ["local_write", "remote_write", "remote_read"], "n": spec["n"]})
    pair.close()
    return res
