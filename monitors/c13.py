"""C13 - loading untrusted bytes is total, typed-error-only and side-effect free."""

from __future__ import annotations

import io
import os
import signal
import subprocess
import struct
import sys
import threading
import time

from ref import codec
from vlib import core
from vlib import values
from vlib.core import Result
from vlib.core import short

ID = "C13"
LEVEL = "exploration"
RULE = ("byte strings: every single-byte substitution/deletion/insertion of valid dumps (exhaustive per dump for dumps "
        "<= 64 bytes, sampled beyond), every strict prefix, opcode soups with adversarial length fields, stack-machine "
        "abuse from the grammar; a case is one loads() call; distinct = distinct input byte strings")
ASSUMPTIONS = [
    "inputs whose NEWLIST length field exceeds 10x the input size are executed only under an address-space limit "
    "and their MemoryError is the known finding the property statement sets aside",
    "EOFError is accepted only when the stream had been consumed to its end",
    "'never runs code' is observed through CPython audit events (exec, compile, import, open, os.*, subprocess.*, socket.*)",
]
MINIMUM = {"distinct": 5000, "prefixes": 500, "audit_armed_loads": 5000}

NDUMPS = {"quick": 40, "thorough": 1800}
NSH = {"quick": 16, "thorough": 32}
SHARD_TIMEOUT = {"quick": 150, "thorough": 2400}

OPS = b"@ABCDEFGHIJKLMNOPQRST"
WATCHDOG_S = 5.0  # the loader is linear in its input; inputs are at most a few KB

_audit = {"armed": False, "events": []}


def _hook(event, args):
    if not _audit["armed"]:
        return
    if event in ("exec", "compile", "import", "open", "socket.connect", "socket.bind", "subprocess.Popen",
                 "os.system", "os.exec", "os.spawn", "os.posix_spawn", "os.fork", "os.remove", "os.rename", "os.mkdir",
                 "os.rmdir", "os.chmod", "os.kill", "ctypes.dlopen", "shutil.rmtree", "urllib.Request"):
        if event == "import" and str(args[0]).startswith("encodings"):
            return
        _audit["events"].append((event, short(args, 200)))


def shards(tier, seed):
    out = [{"ndumps": NDUMPS[tier]} for _ in range(NSH[tier])]
    out.append({"kind": "inprocess"})
    out.append({"kind": "deep", "depths": [300, 5000, 400000] if tier == "quick" else [300, 3000, 20000, 100000, 400000, 1000000]})
    return out


# ---------------------------------------------------------------------------
# nesting far beyond what dumps() can produce (the loader is an iterative stack machine: a few bytes per level).
# A probe may take the interpreter down, so each one runs in a child process.

DEEP_CHILD = r"""
import sys, faulthandler
faulthandler.enable()
import execnet
from execnet.gateway_base import LoadError
n, shape = int(sys.argv[1]), sys.argv[2]
I1 = b"\x00\x00\x00\x01"
if shape == "tuple_plain":
    data = b"L" + (b"@" + I1) * n + b"Q"
elif shape == "tuple_in_set":
    data = b"L" + (b"@" + I1) * n + b"O" + I1 + b"Q"
elif shape == "tuple_in_frozenset":
    data = b"L" + (b"@" + I1) * n + b"E" + I1 + b"Q"
elif shape == "tuple_as_dict_key":
    data = b"J" + b"L" + (b"@" + I1) * n + b"L" + b"P" + b"Q"
elif shape == "frozenset_nest":
    data = b"L" + (b"E" + I1) * n + b"Q"
elif shape == "list_nest":
    data = (b"K" + I1 + b"F\x00\x00\x00\x00") * n + b"L" + b"P" * n + b"Q"
elif shape == "dict_nest":
    data = (b"J" + b"F\x00\x00\x00\x00") * n + b"L" + b"P" * n + b"Q"
elif shape == "tuple_then_unknown_opcode":
    data = b"L" + (b"@" + I1) * n + b"?"
elif shape == "list_nest_then_unknown_opcode":
    data = (b"K" + I1 + b"F\x00\x00\x00\x00") * n + b"L" + b"P" * n + b"\xff"
elif shape == "tuple_then_truncated":
    data = b"L" + (b"@" + I1) * n + b"@\x00\x00"
elif shape == "tuple_then_failing_opcode":
    data = b"L" + (b"@" + I1) * n + b"L" + b"P" + b"Q"
elif shape == "tuple_then_surplus_item":
    data = b"L" + (b"@" + I1) * n + b"L" + b"Q"
data = b"\x02" + data
try:
    v = execnet.loads(data)
    out = "ok " + type(v).__name__
    del v
except (LoadError, EOFError) as e:
    out = "typed " + type(e).__name__
except BaseException as e:
    out = "untyped " + type(e).__name__ + " " + str(e)[:80]
print(out + " bytes=%d" % len(data))
"""
HASHED = ("tuple_in_set", "tuple_in_frozenset", "tuple_as_dict_key")


def run_deep(spec):
    res = Result()
    for n in spec["depths"]:
        for shape in ("tuple_plain", "tuple_in_set", "tuple_in_frozenset", "tuple_as_dict_key", "frozenset_nest", "list_nest", "dict_nest",
                      "tuple_then_unknown_opcode", "list_nest_then_unknown_opcode", "tuple_then_truncated", "tuple_then_failing_opcode",
                      "tuple_then_surplus_item"):
            label = f"{shape} nested {n} levels"
            try:
                p = subprocess.run([core.PY, "-c", DEEP_CHILD, str(n), shape], env=core.child_env(), capture_output=True, text=True, timeout=120)
            except subprocess.TimeoutExpired:
                res.violation("load-does-not-terminate", f"{label}: no result after 120 s")
                continue
            res.count("deep_nesting_probes")
            res.case(core.h64("deep", n, shape))
            out = p.stdout.strip()
            if p.returncode < 0 or p.returncode >= 128:
                mech = "interpreter-crash-in-loads:hash-of-deeply-nested-tuple" if shape in HASHED else f"interpreter-crash-in-loads:{shape}"
                res.violation(mech, f"{label} ({5 * n} bytes of input, every length field 1): child ended with status {p.returncode}; "
                                    f"{short(p.stderr.strip().splitlines()[:1], 120)}")
            elif out.startswith("untyped"):
                res.violation("untyped-exception:" + out.split()[1] + ":deep-nesting", f"{label}: {out}")
            elif not (out.startswith("ok") or out.startswith("typed")):
                res.violation("deep-probe-failed", f"{label}: rc={p.returncode} {short(p.stdout, 100)} {short(p.stderr, 300)}")
            else:
                res.count("deep_nesting_probes_survived")
                if len(res.samples) < 3:
                    res.sample({"deep_probe": label, "result": out})
    return res


class PosStream(io.BytesIO):
    pass


class LoadTimeout(BaseException):
    """raised by the SIGALRM watchdog inside a load that does not terminate"""


def _alarm(signum, frame):
    if _audit["armed"]:  # i.e. a load is in progress
        raise LoadTimeout()
    signal.setitimer(signal.ITIMER_REAL, WATCHDOG_S)


def amplifying(data: bytes) -> bool:
    """over-approximate: some 'K' byte anywhere is followed by a 4-byte length far beyond the input size"""
    lim = 10 * len(data) + 1000
    p = data.find(b"K")
    while p != -1:
        if p + 5 <= len(data):
            n = struct.unpack("!i", data[p + 1:p + 5])[0]
            if n > lim:
                return True
        p = data.find(b"K", p + 1)
    return False


def opcode_at_failure(data: bytes) -> str:
    """which opcode the reference decoder was at when it gave up (for mechanism keys)"""
    names = {v: k for k, v in codec.OPC.items()}
    # replay the reference decoder and remember the last opcode position
    try:
        codec.decode(data, max_alloc=10 * len(data) + 1000)
    except codec.RefError:
        pass
    except Exception:
        pass
    return "?"


class Loader:
    def __init__(self, res: Result):
        import execnet
        from execnet import gateway_base as gb

        self.execnet = execnet
        self.gb = gb
        self.res = res
        self.seen: set[bytes] = set()
        self.chan_inits = 0
        orig = gb.Channel.__init__
        me = self

        def counting_init(self_, *a, **k):
            me.chan_inits += 1
            return orig(self_, *a, **k)

        gb.Channel.__init__ = counting_init
        self.bucket: list[bytes] = []
        self._n_since_arm = 10**9
        self._since_watch = 0
        self._pending_watch = False
        self._entry = 0
        self._state0 = self.interpreter_state()

    @staticmethod
    def interpreter_state():
        """process-wide settings a load has no business touching"""
        import gc
        import threading
        import warnings

        return {"gc_enabled": gc.isenabled(), "gc_threshold": gc.get_threshold(), "recursionlimit": sys.getrecursionlimit(),
                "switchinterval": sys.getswitchinterval(), "warning_filters": len(warnings.filters), "threads": threading.active_count(),
                "cwd": os.getcwd(), "stdout": id(sys.stdout), "stderr": id(sys.stderr), "int_max_str_digits": sys.get_int_max_str_digits(),
                "sigint": signal.getsignal(signal.SIGINT), "trace": sys.gettrace(), "modules_execnet": sum(1 for m in sys.modules if m.startswith("execnet"))}

    def watch_state(self, data: bytes, kind: str):
        now = self.interpreter_state()
        if now != self._state0:
            import gc

            changed = {k: (self._state0[k], now[k]) for k in now if now[k] != self._state0[k]}
            self.res.violation("loads-changed-interpreter-state:" + ",".join(sorted(changed)),
                               f"{changed} after loading [{kind}] hex={data.hex()[:200]} (or one of the {self._since_watch} inputs before it)")
            if not now["gc_enabled"]:
                gc.enable()
            self._state0 = self.interpreter_state()
        self._since_watch = 0

    def check(self, data: bytes, kind: str, must_fail: bool = False, via_load: bool = False):
        res = self.res
        self._since_watch += 1
        if self._since_watch >= 64 or len(data) < 3:
            # (short inputs - wrong version byte, empty, immediate STOP - take the rarely travelled exits: looked at one by one)
            if len(data) < 3 and self._since_watch > 1:
                self.watch_state(data, kind + ":before")
            self._pending_watch = True
        else:
            self._pending_watch = False
        if amplifying(data):
            self.bucket.append(data)
            res.count("routed_to_memory_bucket")
            return
        self._entry = (self._entry + 1) % 3
        if not via_load and self._entry == 0:
            via_load = "loads"  # every third input goes through the public loads() (the others: load(stream), the unserializer)
        self._run(data, kind, must_fail, via_load)
        if self._pending_watch:
            self.watch_state(data, kind)

    def _run(self, data, kind, must_fail=False, via_load=False, in_bucket=False):
        res = self.res
        execnet = self.execnet
        res.evaluations += 1
        if len(res.distinct) < 400000:
            res.distinct.add(core.h64(data))
        res.count("kind_" + kind)
        stream = PosStream(data)
        before = self.chan_inits
        _audit["events"].clear()
        _audit["armed"] = True
        t0 = time.perf_counter()
        self._n_since_arm += 1
        if self._n_since_arm >= 200:
            # one timer re-armed every 200 loads: a load that does not return is still interrupted within WATCHDOG_S
            self._n_since_arm = 0
            signal.setitimer(signal.ITIMER_REAL, WATCHDOG_S)
        try:
            try:
                if via_load == "loads":
                    stream.seek(len(data))  # (no stream position to look at on this entry point)
                    v = execnet.loads(data)
                elif via_load:
                    v = execnet.load(stream)
                else:
                    v = self.gb.Unserializer(stream, strconfig=(False, False)).load(versioned=True)
            finally:
                _audit["armed"] = False
                dt = time.perf_counter() - t0
        except LoadTimeout:
            signal.setitimer(signal.ITIMER_REAL, WATCHDOG_S)
            self._n_since_arm = 0
            res.violation("load-does-not-terminate", f"no result after {WATCHDOG_S}s [{kind}] for {len(data)}-byte input hex={data.hex()[:200]}")
            return
        except execnet.DataFormatError:
            res.count("out_DataFormatError")
        except EOFError:
            res.count("out_EOFError")
            if stream.tell() != len(data):
                res.violation("eoferror-before-end-of-input", f"EOFError at {stream.tell()}/{len(data)} hex={data.hex()[:200]}")
        except MemoryError:
            if in_bucket:
                res.violation("length-field-unjustified:NEWLIST", f"MemoryError for {len(data)}-byte input hex={data.hex()[:120]}")
            else:
                res.violation("memoryerror-on-justified-input", f"hex={data.hex()[:200]}")
        except BaseException as e:
            res.count("out_other_exception")
            tb = e.__traceback__
            fn = "?"
            while tb is not None:
                if tb.tb_frame.f_code.co_filename.endswith("gateway_base.py"):
                    fn = tb.tb_frame.f_code.co_name
                tb = tb.tb_next
            res.violation(f"untyped-exception:{type(e).__name__}:{fn}",
                          f"{type(e).__name__}: {e} [{kind}] hex={data.hex()[:240]}")
        else:
            res.count("out_value")
            if in_bucket:
                del v  # may be a multi-million element list; its content was not the question
                res.count("audit_armed_loads")
                return
            c = values.canon(v)
            if values.has_unsupported(c):
                res.violation("loads-returned-unsupported-type", f"{short(c)} hex={data.hex()[:200]}")
            if must_fail:
                res.violation("strict-prefix-loads-successfully", f"[{kind}] -> {short(v)} hex={data.hex()[:200]}")
            # differential: when the reference decoder also accepts, the values must agree
            try:
                rv = codec.decode(data, max_alloc=10 * len(data) + 1000)
                if values.canon(rv) != c:
                    res.violation("value-differs-from-reference-decoder", f"got {short(v)} want {short(rv)} hex={data.hex()[:200]}")
                res.count("agree_with_reference")
            except (codec.RefError, TypeError, ValueError, RecursionError):
                res.count("value_where_reference_rejects")
        if dt > 5.0:
            res.violation("load-exceeds-watchdog", f"{dt:.1f}s for {len(data)} bytes hex={data.hex()[:120]}")
        res.count("audit_armed_loads")
        if _audit["events"]:
            res.violation(f"side-effect-during-load:{_audit['events'][0][0]}", f"{_audit['events'][:3]} hex={data.hex()[:200]}")
        if self.chan_inits != before:
            res.violation("channel-created-without-gateway", f"hex={data.hex()[:200]}")

    def run_bucket(self):
        """memory-amplifying inputs, under an address-space limit"""
        if not self.bucket:
            return
        import resource

        try:
            with open("/proc/self/status") as f:
                vm = [int(l.split()[1]) for l in f if l.startswith("VmSize:")][0] * 1024
        except Exception:
            vm = 1 << 30
        soft, hard = resource.getrlimit(resource.RLIMIT_AS)
        resource.setrlimit(resource.RLIMIT_AS, (vm + (96 << 20), hard))
        try:
            for data in self.bucket[:40]:
                self.res.count("memory_bucket_executed")
                self._run(data, "memory_bucket", in_bucket=True)
        finally:
            resource.setrlimit(resource.RLIMIT_AS, (soft, hard))


def abuse_streams(rng, g):
    """stack-machine abuse written from the grammar"""
    E = lambda v: codec.encode(v, versioned=False)[:-1]  # item without STOP
    i4 = lambda n: struct.pack("!i", n)
    V = codec.VERSION
    out = []
    item = lambda: E(g.leaf() if rng.random() < 0.7 else g.value(4))
    small = [E(1), E("k"), E(b"b"), E(None), E((1, 2)), E([1]), E({"a": 1}), E(1.5), E(frozenset([1])), E({1})]
    # SETITEM on non-containers, out-of-range / wrong-typed index, unhashable key
    for cont in small:
        for key in small:
            out.append(V + cont + key + E(7) + b"P" + b"Q")
    for idx in (-1, -2, 0, 1, 2, 5, 2**31 - 1, -2**31):
        out.append(V + b"K" + i4(2) + b"F" + i4(idx) + E("v") + b"P" + b"Q")
    out.append(V + b"P" + b"Q")
    out.append(V + E(1) + b"P" + b"Q")
    out.append(V + E(1) + E(2) + b"P" + b"Q")
    # collection opcodes with length > stack, < 0, 0
    for op in (b"@", b"O", b"E"):
        for n in (-2**31, -5, -1, 0, 1, 2, 3, 100, 2**31 - 1):
            for k in (0, 1, 2):
                out.append(V + b"".join(rng.choice(small) for _ in range(k)) + op + i4(n) + b"Q")
        out.append(V + E([1]) + E({}) + op + i4(2) + b"Q")  # unhashable members
    # STOP with stack != 1
    out += [V + b"Q", V + E(1) + E(2) + b"Q", V + E(1) + E(2) + E(3) + b"Q", b"Q", b"", V]
    # CHANNEL without a factory
    for cid in (0, 1, -1, 2**31 - 1):
        out.append(V + b"B" + i4(cid) + b"Q")
        out.append(V + b"K" + i4(1) + E(0) + b"B" + i4(cid) + b"P" + b"Q")
    # invalid utf-8
    for op in (b"N", b"S"):
        for bad in (b"\xff", b"\xc3", b"\xed\xa0\x80", b"\xf8\x88\x80\x80\x80", b"a\x80b", b"\xf4\x90\x80\x80"):
            out.append(V + op + i4(len(bad)) + bad + b"Q")
    # decimal text
    for op in (b"H", b"I"):
        for txt in (b"", b"abc", b"12a", b"-", b"+", b" 12 ", b"1_000", b"0x10", b"1e5", b"12L", b"--1", b"\xd9\xa1",
                    b"9" * 4301, b"-" + b"9" * 4300, b"1" * 5000, b"12\x00", b"\n12"):
            out.append(V + op + i4(len(txt)) + txt + b"Q")
    # length fields: negative, 0, +-1 around the remaining length, huge
    for op in (b"A", b"N", b"M", b"S", b"H"):
        body = b"12345"
        for n in (-2**31, -6, -1, 0, 1, 4, 5, 6, 7, 100, 2**31 - 1):
            out.append(V + op + i4(n) + body + b"Q")
            out.append(V + op + i4(n) + body)
    for n in (-2**31, -1, 0, 1, 3, 50):
        out.append(V + b"K" + i4(n) + b"Q")
        out.append(V + b"K" + i4(n) + E(0) + E("x") + b"P" + b"Q")
    # truncated fixed-size fields
    for op, size in ((b"F", 4), (b"G", 4), (b"D", 8), (b"T", 16), (b"B", 4), (b"K", 4), (b"@", 4), (b"A", 4)):
        for k in range(size):
            out.append(V + op + b"\x00" * k)
    # nested partial containers
    out.append(V + b"K" + i4(1) + E(0) + b"K" + i4(1) + E(0) + E(1) + b"P" + b"Q")
    out.append(V + b"J" + b"J" + E(1) + b"P" + b"Q")
    out.append(V + b"J" + E([1]) + E(1) + b"P" + b"Q")  # unhashable dict key
    out.append(V + b"J" + E({}) + E(1) + b"P" + b"Q")
    out.append(V + E((1,)) + E(0) + E(1) + b"P" + b"Q")  # setitem on tuple
    out.append(V + E("abc") + E(0) + E("x") + b"P" + b"Q")  # setitem on str
    out.append(V + E(b"abc") + E(0) + E(1) + b"P" + b"Q")  # setitem on bytes
    # random soups
    for _ in range(400):
        n = rng.randint(1, 30)
        parts = [V if rng.random() < 0.9 else bytes([rng.randrange(256)])]
        for _ in range(n):
            k = rng.random()
            if k < 0.45:
                parts.append(bytes([rng.choice(OPS)]))
            elif k < 0.65:
                parts.append(i4(rng.choice((-1, 0, 1, 2, 3, 5, 255, 2**31 - 1, -2**31, rng.randint(-10, 40)))))
            elif k < 0.8:
                parts.append(item())
            elif k < 0.9:
                parts.append(rng.randbytes(rng.randint(1, 9)))
            else:
                parts.append(b"P")
        if rng.random() < 0.7:
            parts.append(b"Q")
        out.append(b"".join(parts))
    return out


def run_inprocess(spec):
    """loads() in a process that does other things with execnet: other threads are loading at the same time, a gateway is
    (or was) at work. What a load returns and what it leaves behind must not depend on any of that."""
    import gc

    from vlib import imodel

    res = Result()
    rng = core.rng_for("C13p", spec["tier"], spec["seed"], spec["shard"])
    g = values.Gen(rng, max_bytes=200, huge_ints=False, max_depth=3)
    signal.signal(signal.SIGALRM, _alarm)
    sys.addaudithook(_hook)
    L = Loader(res)
    execnet = L.execnet

    def outcome(data, **kw):
        try:
            return ("ok", repr(values.canon(execnet.loads(data, **kw))))
        except (execnet.DataFormatError, EOFError) as e:
            return ("typed", type(e).__name__)
        except BaseException as e:  # noqa
            return ("untyped", type(e).__name__)

    def longint(ndigits, op=b"H"):
        d = (b"7" * ndigits)
        return b"\x02" + op + struct.pack("!i", len(d)) + d + b"Q"

    CH = codec.OPC["CHANNEL"]
    chan_inputs = [b"\x02" + CH + struct.pack("!i", cid) + b"Q" for cid in (1, 3, 5, 2**31 - 1, -1)]
    chan_inputs += [b"\x02" + CH + struct.pack("!i", 7) + CH + struct.pack("!i", 9) + b"@" + struct.pack("!i", 2) + b"Q"]

    # ---- (A) several threads load at once, with pre-emption inside the loader
    inputs = [codec.encode(g.value(2)) for _ in range(20)]
    inputs += [longint(n, op) for n in (1, 100, 4300, 4301, 5000, 9000) for op in (b"H", b"I")]
    inputs += chan_inputs + [b"\x02", b"", b"\x02Q", b"\x02K\x7f\xff\xff\xff"[:5]]
    expected = {d: outcome(d) for d in inputs}
    tracked = lambda: {k: v for k, v in L.interpreter_state().items() if k not in ("threads", "trace")}
    state0 = tracked()
    pre = imodel.Preempt(core.REPO_SRC)
    pre.install()
    try:
        for rnd in range(6 if spec["tier"] == "quick" else 200):
            T = rng.choice((2, 3, 4))
            mism: list = []
            stop = threading.Event()

            def worker(seed):
                r = __import__("random").Random(seed)
                for _ in range(60):
                    d = r.choice(inputs)
                    o = outcome(d)
                    if o != expected[d]:
                        mism.append((d, o, expected[d]))

            transient: list = []

            def sampler():
                while not stop.is_set():
                    now = tracked()
                    if now != state0 and not transient:
                        transient.append({k: (state0[k], now[k]) for k in now if now[k] != state0[k]})
                    time.sleep(0)

            pre.set_noise(rng.getrandbits(32), rng.choice((0.02, 0.1, 0.3)))
            ths = [threading.Thread(target=worker, args=(rng.getrandbits(32),)) for _ in range(T)]
            st = threading.Thread(target=sampler)
            st.start()
            for t in ths:
                t.start()
            for t in ths:
                t.join(120)
            stop.set()
            st.join(10)
            pre.off()
            res.count("concurrent_load_rounds")
            res.count("concurrent_loads", T * 60)
            res.case(core.h64("concurrent-loads", rnd, T))
            if mism:
                d, o, e = mism[0]
                res.violation("loads-outcome-depends-on-concurrent-loads", f"{o} instead of {e} for hex={d.hex()[:120]} ({len(d)} bytes) while {T - 1} other threads were loading")
            if transient:
                res.violation("loads-changed-interpreter-state:" + ",".join(sorted(transient[0])) + ":while-loading", f"{transient[0]} seen from another thread while {T} threads were loading")
            now = tracked()
            if now != state0:
                changed = {k: (state0[k], now[k]) for k in now if now[k] != state0[k]}
                res.violation("loads-changed-interpreter-state:" + ",".join(sorted(changed)), f"{changed} after {T} threads loaded concurrently")
                if "int_max_str_digits" in changed:
                    sys.set_int_max_str_digits(state0["int_max_str_digits"])
                state0 = tracked()
            if res.enough(3):
                break
    finally:
        pre.uninstall()

    # ---- (B) a gateway at work in this process: items for a channel of which only the callback is left, channels inside
    # items, string coercion switched on a channel and on the gateway - and loads() still never makes a channel
    def probe(when):
        for d in chan_inputs:
            L.seen.discard(d)
            L.check(d, "channel_opcode_beside_gateway")
            o = outcome(d)
            if o != expected[d]:
                res.violation("loads-outcome-depends-on-gateway-activity", f"{when}: {o} instead of {expected[d]} for hex={d.hex()}")
        for d in inputs[:20]:
            o = outcome(d)
            if o != expected[d]:
                res.violation("loads-outcome-depends-on-gateway-activity", f"{when}: {o} instead of {expected[d]} for hex={d.hex()[:120]}")
        res.count("probes_beside_a_gateway")

    group = execnet.Group()
    try:
        gw = group.makegateway("popen")
        probe("gateway just made")
        items: list = []
        ch = gw.remote_exec("import time\ntime.sleep(0.3)\nchannel.send([1, 'x'])\nchannel.send(channel.gateway.newchannel())\nchannel.send('done')")
        ch.setcallback(items.append)
        del ch
        gc.collect()
        t_end = time.monotonic() + 20
        while len(items) < 3 and time.monotonic() < t_end:
            time.sleep(0.02)
        if len(items) < 3:
            res.inconclusive.append(f"callback-only channel got {len(items)} of 3 items")
        probe("after items for a callback-only channel")
        # ... and from inside a channel callback (the thread that is receiving for the gateway at that moment)
        seen_in_cb: list = []

        def loading_callback(item):
            for d in chan_inputs:
                seen_in_cb.append((d, outcome(d)))

        cbch = gw.remote_exec("channel.send('go')")
        cbch.setcallback(loading_callback)
        t_end = time.monotonic() + 20
        while len(seen_in_cb) < len(chan_inputs) and time.monotonic() < t_end:
            time.sleep(0.02)
        res.count("loads_called_from_a_channel_callback", len(seen_in_cb))
        for d, o in seen_in_cb:
            if o != expected[d]:
                res.violation("loads-outcome-depends-on-gateway-activity", f"called from a channel callback: {o} instead of {expected[d]} for hex={d.hex()}")
        if len(seen_in_cb) < len(chan_inputs):
            res.inconclusive.append(f"callback ran {len(seen_in_cb)} of {len(chan_inputs)} loads")
        ch = gw.remote_exec("c = channel.receive()\nc.send(b'bytes')\nchannel.send(channel.receive())")
        ch.reconfigure(py2str_as_py3str=False, py3str_as_py2str=True)
        sub = gw.newchannel()
        ch.send(sub)
        sub.receive(20)
        ch.send("text")
        ch.receive(20)
        ch.waitclose(20)
        gw.reconfigure(py2str_as_py3str=False, py3str_as_py2str=True)
        gw.remote_exec("channel.send('x')").receive(20)
        probe("after a channel and the gateway were reconfigured")
        gw.exit()
        gw.join(10)
        probe("after the gateway exited")
    except BaseException as e:  # noqa
        res.inconclusive.append(f"gateway phase: {type(e).__name__}: {e}")
    finally:
        group.terminate(2.0)
    probe("after the group was terminated")
    return res


def run_shard(spec):
    if spec.get("kind") == "deep":
        return run_deep(spec)
    if spec.get("kind") == "inprocess":
        return run_inprocess(spec)
    res = Result()
    rng = core.rng_for("C13", spec["tier"], spec["seed"], spec["shard"])
    g = values.Gen(rng, max_bytes=200, huge_ints=False, max_depth=4)
    sys.addaudithook(_hook)
    signal.signal(signal.SIGALRM, _alarm)
    L = Loader(res)
    execnet = L.execnet
    # warm up codecs etc. before arming the audit hook
    for v in ([1, "é", b"x", 2**70, 1.5, (1,), {1}, frozenset([2]), {"a": None}, True, 1j],):
        execnet.loads(execnet.dumps(v))
    for w in (codec.Py2Str(b"\xe9"), codec.Py2Unicode("é"), codec.Py2Long(2**70)):
        execnet.loads(codec.encode(w), py2str_as_py3str=True)

    # ---- no memory between loads: what loads(x) gives does not depend on what was loaded before, whatever the
    # switches of those other loads were (same payload bytes under another opcode / another decoding)
    def outcome(data, **kw):
        try:
            return ("ok", repr(values.canon(execnet.loads(data, **kw))))
        except (execnet.DataFormatError, EOFError) as e:
            return ("typed", type(e).__name__)
        except BaseException as e:  # noqa
            return ("untyped", type(e).__name__)

    for i in range(150 if spec["tier"] == "quick" else 5000):
        n = rng.choice((1, 2, 3, 8, 31, 32, 33, 100))
        payload = bytes(rng.choice((0x41, 0xE9, 0xFF, 0xFE, 0xC3, 0xA9, 0x80, 0x20)) for _ in range(n))
        ln = struct.pack("!i", n)
        as_py3 = b"\x02N" + ln + payload + b"Q"
        as_py2 = b"\x02M" + ln + payload + b"Q"
        as_uni = b"\x02S" + ln + payload + b"Q"
        probes = [(as_py3, {}), (as_uni, {}), (as_py2, {}), (as_py2, {"py2str_as_py3str": True}), (as_py3, {"py3str_as_py2str": True})]
        before = [outcome(d, **kw) for d, kw in probes]
        rng.shuffle(probes_order := list(range(len(probes))))
        for j in probes_order:
            outcome(probes[j][0], **probes[j][1])
        after = [outcome(d, **kw) for d, kw in probes]
        res.count("order_independence_probes", len(probes))
        if before != after:
            k = next(k for k in range(len(probes)) if before[k] != after[k])
            res.violation("loads-outcome-depends-on-earlier-loads",
                          f"payload {payload.hex()} as {probes[k][0][1:2]!r} with {probes[k][1]}: first {before[k]}, after other loads {after[k]}")
            break

    # ---- mutations of valid dumps
    nd = spec["ndumps"]
    for di in range(nd):
        if res.enough(3):
            break
        if di % 3 == 0:
            v = g.special(di // 3 + spec["shard"] * 5)
        else:
            v = g.value(2)
        try:
            data = codec.encode(v)
        except RecursionError:
            continue
        if len(data) > 4000:
            continue
        if di == 0:
            res.sample({"valid_dump": data.hex()[:100], "value": short(v, 100)})
        # the valid dump itself loads and agrees
        L.check(data, "valid")
        # every strict prefix must fail
        for k in range(len(data)):
            if res.enough(3):
                break
            res.count("prefixes")
            L.check(data[:k], "prefix", must_fail=True, via_load=(k % 2 == 0))
        exhaustive = len(data) <= 64
        positions = range(len(data)) if exhaustive else sorted(rng.sample(range(len(data)), 40))
        if exhaustive:
            res.count("dumps_mutated_exhaustively")
        else:
            res.count("dumps_mutated_sampled")
        for p in positions:
            if res.enough(3):
                break
            subs = range(256) if exhaustive else [rng.randrange(256) for _ in range(24)] + list(OPS)
            for b in subs:
                if b != data[p]:
                    L.check(data[:p] + bytes([b]) + data[p + 1:], "substitute")
            L.check(data[:p] + data[p + 1:], "delete")
            ins = range(256) if (exhaustive and len(data) <= 24) else list(OPS) + [0, 1, 255, 0x7F, 0x80]
            for b in ins:
                L.check(data[:p] + bytes([b]) + data[p:], "insert")
        # trailing garbage after STOP is not part of the value
        L.check(data + b"\x00garbage", "trailing")

    # ---- large payloads really present in the input: still only supported types come back, hashable where they must be
    if spec["shard"] % 4 == 0:
        for size in (65535, 65536, 65537, 70000, 300000):
            big = [b"b" * size, "s" * size, {b"k" * size: 1}, {"t" * size}, (b"x" * size, "y" * size), frozenset([b"f" * size])]
            for v in big:
                data = codec.encode(v)
                L.check(data, "large_valid")
                res.count("large_valid_dumps")
                for k in (len(data) - 1, len(data) - 2, size // 2):
                    L.check(data[:k], "large_prefix", must_fail=True)
            for legacy, cfg in ((codec.Py2Str(b"p" * size), (False, False)), ("n" * size, (False, True))):
                data = codec.encode(legacy)
                try:
                    v = L.execnet.loads(data, py2str_as_py3str=cfg[0], py3str_as_py2str=cfg[1])
                    if type(v) is not bytes:
                        res.violation("loads-returned-unsupported-type", f"{type(v).__name__} for a {size}-byte legacy/str payload loaded as bytes")
                except BaseException as e:
                    res.violation(f"untyped-exception:{type(e).__name__}:large-legacy", str(e)[:200])

    # ---- grammar-driven abuse and soups
    for s in abuse_streams(rng, g):
        if res.enough(3):
            break
        L.check(s, "abuse")
        if len(s) < 40:
            for k in range(len(s)):
                L.check(s[:k], "abuse_prefix")

    signal.setitimer(signal.ITIMER_REAL, 0)
    L.run_bucket()
    res.info["memory_bucket_note"] = "inputs with a NEWLIST length > 10x input size run under RLIMIT_AS"
    return res
