"""C20 - specs parse faithfully and group ids stay unique."""

from __future__ import annotations

import shlex
import sys
import threading
import time

from vlib import core
from vlib.core import Result
from vlib.core import short

ID = "C20"
LEVEL = "exploration"
RULE = ("(a) generated key/value lists over an alphabet with '=', ':', '/', space, unicode -> one XSpec string; a case is one "
        "spec with all its attribute/str/eq/hash/duplicate checks; distinct = distinct spec strings. (b) concurrent "
        "Group.allocate_id runs under line-level noise and a single-pre-emption sweep of every line of allocate_id, plus "
        "real makegateway calls with colliding ids; distinct also counts distinct interleaving signatures")
ASSUMPTIONS = [
    "excluded as inherently ambiguous (stated in DESIGN.md): components that would put a '/' next to a '//' separator, and the "
    "reserved name 'env' as a plain key",
]
MINIMUM = {"distinct": 2000, "alloc_ids": 500, "dup_cases": 300, "sweep_fired": 6}

NSPEC = {"quick": 4000, "thorough": 300000}
NSH = {"quick": 12, "thorough": 24}

ALPHA = ["a", "b", "k", "x", "Z", "0", "9", "=", ":", "/", " ", ".", "-", "_", "é", "日", "\U0001f600", "\t", "@", ",", "%", "env", "id"]


def shards(tier, seed):
    s = [{"kind": "xspec", "n": NSPEC[tier]} for _ in range(NSH[tier])]
    s += [{"kind": "alloc", "mode": "noise"}, {"kind": "alloc", "mode": "sweep"}, {"kind": "alloc", "mode": "pct"}]
    s += [{"kind": "real"}]
    if tier == "thorough":
        s += [{"kind": "real"} for _ in range(3)]
    return s


def gen_key(rng, used, env=False):
    if not env and rng.random() < 0.08:
        # names that happen to be the name of something the XSpec class itself has (a key is just a key)
        import execnet

        pool = [n for n in dir(execnet.XSpec) if not n.startswith("_") and n != "env"] + ["kind", "type", "name", "items", "keys", "value", "spec", "copy"]
        k = rng.choice(pool)
        if k not in used:
            return k
    for _ in range(100):
        n = rng.choice((1, 1, 2, 3, 5, 9))
        k = "".join(rng.choice(ALPHA) for _ in range(n))
        if env and rng.random() < 0.15:
            k = "_" + k  # environment variables may begin with an underscore (_JAVA_OPTIONS, __PYVENV_LAUNCHER__): the rule about
            # leading underscores is about attribute names, i.e. about the key as written ("env:_X" begins with "e")
        if not k or "=" in k or "//" in k or (k[0] == "_" and not env) or k[0] == "/" or k[-1] == "/":
            continue
        if not env and (k == "env" or k.startswith("env:")):
            continue
        if (("env:" + k) if env else k) in used:
            continue
        return k
    return None


def gen_value(rng):
    for _ in range(100):
        n = rng.choice((0, 1, 1, 2, 4, 8, 20))
        v = "".join(rng.choice(ALPHA) for _ in range(n))
        if "//" in v or v[-1:] == "/" or v[:1] == "/":
            continue
        return v
    return "v"


def run_shard(spec):
    return {"xspec": run_xspec, "alloc": run_alloc, "real": run_real}[spec["kind"]](spec)


def run_xspec(spec):
    from execnet import XSpec
    from execnet.gateway_io import popen_args, popen_bootstrapline, shell_split_path, ssh_args

    res = Result()
    rng = core.rng_for("C20", spec["tier"], spec["seed"], spec["shard"])
    # every name the class declares is "absent" unless the text names it
    declared = [n for n in getattr(XSpec, "__annotations__", {}) if not n.startswith("_") and n != "env"]
    res.info["declared_spec_names"] = declared
    for i in range(spec["n"]):
        nkeys = rng.choice((1, 1, 2, 3, 4, 6))
        entries = []  # (kind, key, value)
        used = set()
        for _ in range(nkeys):
            kind = rng.choice(("plain", "plain", "bare", "env", "envbare"))
            k = gen_key(rng, used, env=kind.startswith("env"))
            if k is None:
                continue
            used.add(("env:" + k) if kind.startswith("env") else k)
            v = gen_value(rng) if kind in ("plain", "env") else True
            entries.append((kind, k, v))
        if not entries:
            continue
        comps = []
        for kind, k, v in entries:
            t = ("env:" + k) if kind.startswith("env") else k
            comps.append(t if v is True else f"{t}={v}")
        text = "//".join(comps)
        if "///" in text:
            continue
        res.case(core.h64(text))
        if i < 3:
            res.sample(text)
        try:
            s = XSpec(text)
        except BaseException as e:
            res.violation(f"valid-spec-rejected:{type(e).__name__}", f"{text!r}: {e}")
            continue
        want_env = {}
        for kind, k, v in entries:
            if kind.startswith("env"):
                want_env[k] = v
                if getattr(s, "env:" + k) is not None:
                    res.violation("env-key-visible-as-attribute", text)
            else:
                got = getattr(s, k)
                if got != v or type(got) is not type(v):
                    res.violation(f"attribute-value-wrong:{kind}", f"{text!r}: {k!r} -> {got!r}, want {v!r}")
        if s.env != want_env:
            res.violation("env-mapping-wrong", f"{text!r}: {s.env!r} != {want_env!r}")
        for absent in ["nosuchname", "zz" + str(i), "chdir", "python", "via", "socket", "ssh", "popen"] + declared:
            if absent not in used and getattr(s, absent) is not None:
                res.violation("absent-name-not-none", f"{text!r}: {absent} -> {getattr(s, absent)!r}")
        if str(s) != text:
            res.violation("str-not-input", f"{text!r} -> {str(s)!r}")
        try:
            s2 = XSpec(text)  # parsing the same text again (earlier specs must not leave anything behind)
            s3 = XSpec(text)
        except ValueError as e:
            res.violation("valid-spec-rejected-when-parsed-again", f"{text!r}: {e}")
            continue
        if s3.env != want_env or s2.env is s3.env:
            res.violation("env-mapping-wrong-on-later-parse", f"{text!r}: {s3.env!r} != {want_env!r} (shared={s2.env is s3.env})")
        # a spec that has been used (a group wrote an id / exec model into it, the application set an attribute) still
        # compares and hashes by its text
        s4 = XSpec(text)
        if "id" not in used:
            s4.id = "gw%d" % i
        if "execmodel" not in used:
            s4.execmodel = "thread"
        s4.application_note = i
        if not (s4 == s) or (s4 != s) or hash(s4) != hash(s) or s4 not in {s} or {s4: 1}.get(s) != 1 or [s4].index(s) != 0:
            res.violation("eq-hash-not-by-text-after-use", f"{text!r}: ==:{s4 == s} !=:{s4 != s} hash:{hash(s4) == hash(s)}")
        other = XSpec(text + "//zzextra") if "zzextra" not in used else XSpec("q")
        if not (s == s2) or (s != s2) or hash(s) != hash(s2) or hash(s) != hash(text):
            res.violation("eq-hash-not-by-text", text)
        if (s == other) or not (s != other):
            res.violation("eq-on-different-text", text)
        for foreign in (text, 1, None, object()):
            if s == foreign or not (s != foreign):
                res.violation("eq-with-non-xspec", f"{text!r} == {foreign!r}")
        if len({s, s2, other}) != 2:
            res.violation("set-membership-not-by-text", text)
        # every kind of repetition must be refused
        kind, k, v = rng.choice(entries)
        t = ("env:" + k) if kind.startswith("env") else k
        for dupform in (t, f"{t}=other", f"{t}="):
            pos = rng.randrange(len(comps) + 1)
            dtext = "//".join(comps[:pos] + [dupform] + comps[pos:])
            if "///" in dtext:
                continue
            res.count("dup_cases")
            try:
                XSpec(dtext)
            except ValueError:
                pass
            except BaseException as e:
                res.violation(f"duplicate-wrong-exception:{type(e).__name__}:{'env' if kind.startswith('env') else 'plain'}", dtext)
            else:
                res.violation(f"duplicate-key-accepted:{'env' if kind.startswith('env') else 'plain'}", dtext)
        # underscore keys are refused
        if i % 10 == 0:
            try:
                XSpec(text + "//_x=1")
            except AttributeError:
                pass
            except BaseException as e:
                res.violation(f"underscore-key-wrong-exception:{type(e).__name__}", text)
            else:
                res.violation("underscore-key-accepted", text)
        # python= splitting
        if i % 4 == 0:
            words = [rng.choice(["python3", "/usr/bin/my python", "py thon", "-S", "-E", "a'b", 'c"d', "x\\y", "é", "-X", "utf8"]) for _ in range(rng.randint(1, 4))]
            pyval = " ".join(shlex.quote(w) for w in words)
            if "//" in pyval:
                continue
            dwb = rng.random() < 0.5
            sp = XSpec(f"popen//python={pyval}" + ("//dont_write_bytecode" if dwb else ""))
            want = words + ["-u"] + (["-B"] if dwb else []) + ["-c", popen_bootstrapline]
            got = popen_args(sp)
            res.count("argv_cases")
            if got != want:
                res.violation("popen-argv-wrong", f"{pyval!r}: {got!r} != {want!r}")
            if shell_split_path(pyval) != words:
                res.violation("shell-split-wrong", pyval)
            sa = ssh_args(XSpec(f"ssh=-p 22 host//python={pyval}"))
            if sa[:2] != ["ssh", "-C"] or sa[2:5] != ["-p", "22", "host"] or sa[-1] != f'{pyval} -c "{popen_bootstrapline}"':
                res.violation("ssh-argv-wrong", repr(sa))
    # no python= -> the running interpreter
    if popen_args(XSpec("popen")) != [sys.executable, "-u", "-c", popen_bootstrapline]:
        res.violation("popen-argv-default-wrong", repr(popen_args(XSpec("popen"))))
    return res


# ---------------------------------------------------------------------------


def run_alloc(spec):
    import execnet
    from execnet import multi
    from vlib import imodel

    res = Result()
    rng = core.rng_for("C20a", spec["tier"], spec["seed"], spec["mode"])
    pre = imodel.Preempt(core.REPO_SRC)
    pre.install()
    lines = imodel.function_lines(multi.Group.allocate_id, multi.Group.__contains__, multi.Group.__getitem__)
    runs = []
    if spec["mode"] == "noise":
        runs = [("noise", i) for i in range(150 if spec["tier"] == "quick" else 10000)]
    elif spec["mode"] == "pct":
        runs = [("pct", i) for i in range(150 if spec["tier"] == "quick" else 3000)]
    else:
        runs = [("sweep", (f, ln, k)) for (f, ln) in lines for k in (1, 2, 3, 5)]
        res.info["sweep_lines"] = len(lines)
    try:
        for mode, arg in runs:
            T = rng.choice((2, 3, 4, 8))
            per = rng.choice((3, 5, 10))
            g = execnet.Group()
            import atexit

            atexit.unregister(g._cleanup_atexit)
            # some runs start with members that were given ids of the automatic form explicitly (gw0, gw2, ...): an automatic
            # allocation that runs into one is refused (ValueError) or steps over it - it never hands an id out twice
            taken = set()
            if rng.random() < 0.5:

                class Taken:
                    def __init__(self, id):
                        self.id = id

                for j in rng.choice(((0,), (0, 1), (1,), (2,), (1, 3, 4))):
                    g._register(Taken(f"gw{j}"))
                    taken.add(f"gw{j}")
                res.count("alloc_runs_with_explicit_gwN_members")
            got: list[list[str]] = [[] for _ in range(T)]
            start = threading.Barrier(T)
            errs = []

            def worker(ix):
                try:
                    start.wait()
                    for _ in range(per):
                        s = execnet.XSpec("popen")
                        try:
                            g.allocate_id(s)
                        except ValueError:
                            if not taken:
                                raise
                            continue
                        got[ix].append(s.id)
                except BaseException as e:  # noqa
                    errs.append(repr(e))

            if mode == "noise":
                pre.set_noise(rng.getrandbits(32), rng.choice((0.02, 0.1, 0.3)))
            elif mode == "pct":
                pre.set_pct(rng.getrandbits(32), T * per * 12, rng.choice((1, 2, 3)), stall=0.01)
            else:
                pre.restart()
                pre.set_sweep(arg[0], arg[1], arg[2], stall=0.02)
            ths = [threading.Thread(target=worker, args=(i,)) for i in range(T)]
            for t in ths:
                t.start()
            for t in ths:
                t.join(20)
            pre.off()
            if mode == "sweep" and pre.fired:
                res.count("sweep_fired")
            allids = [i for l in got for i in l]
            res.count("alloc_ids", len(allids))
            res.count("alloc_runs")
            res.sig(tuple(tuple(l) for l in got))
            res.case(core.h64("alloc", mode, arg, tuple(tuple(l) for l in got)))
            if errs:
                res.violation("allocate-id-raised", errs[0])
            if any(t.is_alive() for t in ths):
                res.violation("allocate-id-hung", f"{mode} {arg}")
            if taken & set(allids):
                res.violation("auto-id-equals-explicit-id", f"{mode} {arg}: {sorted(taken & set(allids))} handed out although members have these ids")
            if len(set(allids)) != len(allids) or (len(allids) != T * per and not taken):
                dup = sorted({i for i in allids if allids.count(i) > 1})
                res.violation("duplicate-auto-id", f"{mode} {arg}: duplicates {dup[:5]} among {len(allids)} ids")
            if None in allids:
                res.violation("id-not-assigned", f"{mode} {arg}")
        res.sample({"mode": spec["mode"], "runs": len(runs), "line_events": pre.nevents})
        # members joining and leaving the group at the same time (what makegateway() and exit()/terminate() do to the
        # group from different threads): nobody who joined and did not leave is missing, nobody who left is still there
        mlines = imodel.function_lines(multi.Group._register, multi.Group._unregister)
        if spec["mode"] == "sweep":
            mruns = [("sweep", (f, ln, k)) for (f, ln) in mlines for k in (1, 2, 3)]
            res.info["membership_sweep_lines"] = len(mlines)
        else:
            mruns = runs[: max(60, len(runs) // 4)]

        class Member:
            def __init__(self, id):
                self.id = id

            def __repr__(self):
                return f"<member {self.id}>"

        g = execnet.Group()
        atexit.unregister(g._cleanup_atexit)
        five = [Member(c) for c in "abcde"]
        for m in five:
            g._register(m)
        visited = []
        for m in g:
            visited.append(m.id)
            g._unregister(m)
        if visited != list("abcde") or len(g) != 0:
            res.violation("iteration-skips-members-when-the-body-exits-them", f"loop over 5 members that removes each one visited {visited}, left {[m.id for m in g]}")
        for mode, arg in mruns:
            g = execnet.Group()
            atexit.unregister(g._cleanup_atexit)
            old = [Member(f"m{i}") for i in range(rng.choice((2, 4, 6)))]
            for m in old:
                g._register(m)
            new = [Member(f"n{i}") for i in range(rng.choice((1, 3, 5)))]
            half = len(old) // 2
            errs = []
            start = threading.Barrier(3)

            def leave(ms):
                try:
                    start.wait()
                    for m in ms:
                        g._unregister(m)
                except BaseException as e:  # noqa
                    errs.append(repr(e))

            def join_():
                try:
                    start.wait()
                    for m in new:
                        g._register(m)
                except BaseException as e:  # noqa
                    errs.append(repr(e))

            if mode == "noise":
                pre.set_noise(rng.getrandbits(32), rng.choice((0.05, 0.2, 0.5)))
            elif mode == "pct":
                pre.set_pct(rng.getrandbits(32), (len(old) + len(new)) * 8, rng.choice((1, 2, 3)), stall=0.01)
            else:
                pre.restart()
                pre.set_sweep(arg[0], arg[1], arg[2], stall=0.03)
            ths = [threading.Thread(target=leave, args=(old[:half],)), threading.Thread(target=leave, args=(old[half:],)),
                   threading.Thread(target=join_)]
            for t in ths:
                t.start()
            for t in ths:
                t.join(20)
            pre.off()
            if mode == "sweep" and pre.fired:
                res.count("membership_sweep_fired")
            res.count("membership_runs")
            ids = [m.id for m in g]
            res.case(core.h64("members", mode, arg, len(old), len(new)))
            label = f"{mode} {arg}: {len(old)} members leave in two threads while {len(new)} join"
            if errs:
                res.violation("register-unregister-raised", f"{label}: {errs[0]}")
            if ids != [m.id for m in new]:
                res.violation("membership-lost-update", f"{label}: iteration gives {ids}, expected {[m.id for m in new]}")
            for i, m in enumerate(new):
                if ids == [x.id for x in new] and (g[i] is not m or g[m.id] is not m or m.id not in g):
                    res.violation("lookup-disagrees-with-iteration", f"{label}: {m.id}")
            if len(g) != len(ids):
                res.violation("len-disagrees-with-iteration", label)
            if sorted(x.id for x in g._gateways_to_join) != sorted(x.id for x in old):
                res.violation("membership-lost-update:to-join", f"{label}: left {[x.id for x in old]}, kept for joining {[x.id for x in g._gateways_to_join]}")
    finally:
        pre.uninstall()
    return res


def run_real(spec):
    import execnet

    res = Result()
    rng = core.rng_for("C20r", spec["tier"], spec["seed"], spec["shard"])
    g = execnet.Group()

    def consistent(where):
        gws = list(g)
        ids = [gw.id for gw in gws]
        if len(set(ids)) != len(ids):
            res.violation("live-gateways-share-id", f"{where}: {ids}")
        if len(g) != len(gws):
            res.violation("len-disagrees-with-iteration", where)
        for i, gw in enumerate(gws):
            if g[i] is not gw or g[gw.id] is not gw or g[gw] is not gw or gw.id not in g or gw not in g:
                res.violation("lookup-disagrees-with-iteration", f"{where}: index {i} id {gw.id}")
        if "nosuch" in g:
            res.violation("membership-of-absent-id", where)
        res.count("consistency_checks")

    try:
        # concurrent creation from threads
        made = []
        errs = []

        def mk(n):
            for _ in range(n):
                try:
                    made.append(g.makegateway("popen"))
                except BaseException as e:  # noqa
                    errs.append(repr(e))

        T = 3
        ths = [threading.Thread(target=mk, args=(2,)) for _ in range(T)]
        for t in ths:
            t.start()
        for t in ths:
            t.join(60)
        if errs:
            res.violation("concurrent-makegateway-raised", errs[0])
        consistent("after concurrent makegateway")
        res.count("real_gateways", len(made))
        res.case(core.h64("real-concurrent", tuple(sorted(gw.id for gw in made))))
        # overlapping makegateway calls for one id (the same explicit id twice; an explicit gwN against the automatic gwN):
        # one of them gets the id, the other is refused with ValueError, and whatever the loser started is gone
        import os

        def worker_pids():
            out = set()
            for name in os.listdir("/proc"):
                if name.isdigit():
                    try:
                        with open(f"/proc/{name}/stat") as f:
                            st = f.read()
                        if int(st.rsplit(")", 1)[1].split()[1]) == os.getpid() and st.rsplit(")", 1)[1].split()[0] != "Z":
                            out.add(int(name))
                    except (OSError, ValueError, IndexError):
                        pass
            return out

        for rnd, pair in enumerate((("popen//id=same%d", "popen//id=same%d"), ("popen//id=gw%d", "popen"))):
            n_auto = g._autoidcounter
            specs = [p_ % (n_auto if "gw" in p_ else rnd) if "%d" in p_ else p_ for p_ in pair]
            outs: list = []
            go = threading.Barrier(2)
            children_before = worker_pids()

            def make(sp):
                try:
                    go.wait(10)
                    outs.append(("ok", g.makegateway(sp)))
                except BaseException as e:  # noqa
                    outs.append((type(e).__name__, str(e)[:100]))

            ths = [threading.Thread(target=make, args=(sp,)) for sp in specs]
            for t in ths:
                t.start()
            for t in ths:
                t.join(60)
            oks = [o[1] for o in outs if o[0] == "ok"]
            bad = [o for o in outs if o[0] not in ("ok", "ValueError")]
            res.count("overlapping_makegateway_pairs")
            res.case(core.h64("real-overlap", rnd))
            if bad:
                res.violation("overlapping-makegateway-wrong-exception:" + bad[0][0], f"{specs}: {outs!r}")
            if len({gw.id for gw in oks}) != len(oks):
                res.violation("live-gateways-share-id", f"{specs}: both calls returned a gateway with id {oks[0].id}")
            consistent(f"after overlapping makegateway {specs}")
            # every child started meanwhile belongs to a member of the group
            time.sleep(0.3)
            extra = worker_pids() - children_before
            if len(extra) != len(oks):
                res.violation("failed-makegateway-left-process:overlapping", f"{specs}: {len(oks)} gateways were handed out but {len(extra)} new child processes are alive: {outs!r}")
                for pid_ in extra:
                    pass
        # ... and a refused call leaves the reservation of the call still in flight alone: a third call is refused as well
        children_before = worker_pids()
        first: list = []
        ta = threading.Thread(target=lambda: first.append(g.makegateway("popen//id=trio")))
        ta.start()
        time.sleep(0.003)
        later = []
        for _ in range(2):
            try:
                later.append(("ok", g.makegateway("popen//id=trio")))
            except ValueError:
                later.append(("ValueError", None))
            except BaseException as e:  # noqa
                later.append((type(e).__name__, str(e)[:80]))
        ta.join(60)
        res.count("overlapping_makegateway_pairs")
        n_ok = len(first) + sum(1 for o in later if o[0] == "ok")
        if n_ok != 1 or any(o[0] not in ("ok", "ValueError") for o in later):
            res.violation("live-gateways-share-id" if n_ok > 1 else "overlapping-makegateway-wrong-exception:" + str([o[0] for o in later]),
                          f"three calls for id 'trio' (one in flight, two after it): first -> {len(first)} gateway, later -> {[o[0] for o in later]}")
        time.sleep(0.3)
        if len(worker_pids() - children_before) != n_ok:
            res.violation("failed-makegateway-left-process:overlapping", f"three calls for id 'trio': {n_ok} gateways, {len(worker_pids() - children_before)} new child processes")
        consistent("after three overlapping calls for one id")
        # explicit id colliding with a live one must be refused and change nothing
        live = rng.choice(list(g)).id
        before = [gw.id for gw in g]
        try:
            g.makegateway(f"popen//id={live}")
        except (ValueError, AssertionError):
            res.count("collision_refused")
        except BaseException as e:
            res.violation(f"collision-wrong-exception:{type(e).__name__}", str(e))
        else:
            res.violation("explicit-id-collision-accepted", live)
        if [gw.id for gw in g] != before:
            res.violation("group-changed-by-failed-makegateway", f"{before} -> {[gw.id for gw in g]}")
        consistent("after refused explicit id")
        # explicit id that collides with a *future* auto id
        nxt = "gw%d" % g._autoidcounter
        gx = g.makegateway(f"popen//id={nxt}")
        try:
            gy = g.makegateway("popen")
        except ValueError:
            res.count("collision_refused")
        except BaseException as e:
            res.violation(f"auto-id-collision-wrong-exception:{type(e).__name__}", str(e))
        else:
            if gy.id == gx.id:
                res.violation("auto-id-equals-explicit-id", gy.id)
        consistent("after auto/explicit collision")
        res.case(core.h64("real-collisions", nxt))
        # membership is about the gateway *object*: another group's gateway with the same id is not a member,
        # nor is an exited gateway whose explicit id has been reused
        other = execnet.Group()
        try:
            og = other.makegateway("popen//id=%s" % list(g)[0].id)
            if og in g or og in list(g):
                res.violation("foreign-gateway-with-same-id-reported-as-member", og.id)
            try:
                got = g[og]
                res.violation("lookup-by-foreign-gateway-object-succeeded", f"{og.id} -> {got!r}")
            except KeyError:
                pass
            if g[og.id] is og:
                res.violation("lookup-by-id-returned-foreign-gateway", og.id)
        finally:
            other.terminate(2.0)
        old = g.makegateway("popen//id=reused")
        old.exit()
        new = g.makegateway("popen//id=reused")
        if old in g or g["reused"] is not new:
            res.violation("exited-gateway-still-member-after-id-reuse", "reused")
        try:
            g[old]
            res.violation("lookup-by-exited-gateway-object-succeeded", "reused")
        except KeyError:
            pass
        try:
            old.exit()  # a second exit of the old object is a harmless no-op
        except BaseException as e:
            res.violation(f"second-exit-of-replaced-gateway-raised:{type(e).__name__}", str(e))
        if new not in g or g[new] is not new:
            res.violation("lookup-disagrees-with-iteration", "after id reuse")
        consistent("after id reuse")
        res.case(core.h64("real-id-reuse"))
        # exit of one gateway: lookups follow
        victim = rng.choice(list(g))
        victim.exit()
        if victim.id in g or victim in list(g):
            res.violation("exited-gateway-still-member", victim.id)
        consistent("after exit")
        res.sample({"ids": [gw.id for gw in g]})
        # an automatic id and the same explicit id requested at the same time, one of the two calls held for a moment at
        # each line of makegateway(): one gets the id, the other is refused with ValueError, nothing is left behind
        from execnet import multi
        from vlib import imodel

        pre = imodel.Preempt(core.REPO_SRC)
        pre.install()
        try:
            lines = imodel.function_lines(multi.Group.makegateway)
            res.info["makegateway_sweep_lines"] = len(lines)
            for (f_, ln_) in lines:
                nxt = "gw%d" % g._autoidcounter
                children_before = worker_pids()
                outs = []

                def call(sp, delay):
                    try:
                        time.sleep(delay)
                        outs.append(("ok", g.makegateway(sp)))
                    except BaseException as e:  # noqa
                        outs.append((type(e).__name__, str(e)[:100]))

                pre.restart()
                pre.set_sweep(f_, ln_, 1, stall=0.12)
                ths = [threading.Thread(target=call, args=("popen", 0.0)), threading.Thread(target=call, args=(f"popen//id={nxt}", 0.02))]
                for t in ths:
                    t.start()
                for t in ths:
                    t.join(60)
                pre.off()
                if pre.fired:
                    res.count("makegateway_sweep_fired")
                res.count("overlapping_makegateway_pairs")
                res.case(core.h64("real-overlap-sweep", ln_))
                label = f"automatic id against explicit {nxt}, one call held at line {ln_} of makegateway()"
                oks = [o[1] for o in outs if o[0] == "ok"]
                bad = [o for o in outs if o[0] not in ("ok", "ValueError")]
                if bad:
                    res.violation("overlapping-makegateway-wrong-exception:" + bad[0][0], f"{label}: {outs!r}")
                if len({gw.id for gw in oks}) != len(oks):
                    res.violation("live-gateways-share-id", f"{label}: both calls returned a gateway with id {oks[0].id}")
                consistent(label)
                time.sleep(0.3)
                extra = worker_pids() - children_before
                if len(extra) != len(oks):
                    res.violation("failed-makegateway-left-process:overlapping", f"{label}: {len(oks)} gateways were handed out but {len(extra)} new child processes are alive: {outs!r}")
                for gw in oks:
                    gw.exit()
        finally:
            pre.uninstall()
        # the documented way to retire every member: each one is visited although the loop body removes it from the group
        for extra_id in ("it1", "it2", "it3"):
            g.makegateway(f"popen//id={extra_id}")
        members = list(g)
        visited = []
        for gw in g:
            visited.append(gw.id)
            gw.exit()
        res.count("iterate_and_exit_members", len(members))
        if visited != [gw.id for gw in members] or len(g) != 0:
            res.violation("iteration-skips-members-when-the-body-exits-them", f"members {[gw.id for gw in members]}, loop visited {visited}, left in the group {[gw.id for gw in g]}")
    finally:
        g.terminate(2.0)
    if len(g) != 0:
        res.violation("group-not-empty-after-terminate", str(len(g)))
    return res
