"""C14 - main_thread_only executes in the main thread and never cries deadlock falsely."""

from __future__ import annotations

import threading
import time

from vlib import core
from vlib.core import Result
from vlib.core import short

ID = "C14"
LEVEL = "exploration"
RULE = ("generated remote_exec histories of length 1-5 over outcomes {return, raise, SystemExit, KeyboardInterrupt raised by the body, blocked "
        "until released}, each submitted sequentially (only after the previous channel reported closed) or overlapping (while the previous "
        "body is still blocked); run on real main_thread_only workers (popen, popen//python=, popen//via) and on in-process main_thread_only "
        "worker gateways under sync-point perturbation, line noise, PCT stalls and a single-pre-emption sweep over _local_schedulexec, "
        "executetask, _try_send_to_primary_thread, integrate_as_primary_thread and spawn. distinct = distinct (history, transport, schedule) cases")
ASSUMPTIONS = [
    "injected stalls are <= 30 ms, far below the 1 s grace period the implementation documents for the false-deadlock check",
    "in-process pairs: 'the main thread' is the thread that runs WorkerGateway.serve()",
]
MINIMUM = {"histories": 60, "bodies_run": 150, "overlap_rejections": 10, "sweep_fired": 20}
SHARD_TIMEOUT = {"quick": 150, "thorough": 3000}

OUTCOMES = ["return", "raise", "sysexit", "kbi", "blocked"]
DEADLOCK_TEXT = "concurrent remote_exec would cause deadlock for main_thread_only execmodel"


def shards(tier, seed):
    out = []
    for sp in ("popen", "python", "via", "popen", "python", "via"):
        out.append({"kind": "real", "spec": sp, "runs": 3 if tier == "quick" else 150})
    for i in range(4 if tier == "quick" else 8):
        out.append({"kind": "inproc", "mode": ("sync", "noise", "pct", "sync")[i % 4], "runs": 12 if tier == "quick" else 800})
    nsw = 4 if tier == "quick" else 8
    for i in range(nsw):
        out.append({"kind": "sweep", "part": i, "parts": nsw, "ks": [1, 2] if tier == "quick" else [1, 2, 3, 4]})
    return out


def gen_history(rng):
    n = rng.choice((1, 2, 3, 4, 5))
    steps = []
    for i in range(n):
        oc = rng.choice(OUTCOMES)
        steps.append({"outcome": oc, "overlap_probe": oc == "blocked" and rng.random() < 0.7, "probes": rng.choice((1, 1, 2, 3)),
                      "flood": oc == "blocked" and rng.random() < 0.35,
                      "own_cb": oc != "blocked" and rng.random() < 0.4,
                      # the body leaves something in its namespace whose clean-up takes longer than the grace period
                      "slow_finalizer": oc != "blocked" and rng.random() < 0.06})
    return steps


BODY = r"""
import threading, time
me = threading.current_thread()
channel.send(("start", {tag}, me is MAIN(), me.ident, time.monotonic()))
{action}
"""

ACTIONS = {
    "return": 'channel.send(("end", {tag}, time.monotonic()))',
    "raise": 'channel.send(("end", {tag}, time.monotonic()))\nraise ValueError("boom {tag}")',
    "sysexit": 'channel.send(("end", {tag}, time.monotonic()))\nraise SystemExit(2)',
    "kbi": 'channel.send(("end", {tag}, time.monotonic()))\nraise KeyboardInterrupt()',
    "blocked": 'x = channel.receive()\nchannel.send(("end", {tag}, time.monotonic()))',
    # blocked, but busy sending large items all the while (frames of the running body and the refusals written by the
    # receiver thread share the connection)
    "blocked_flood": ('n = 0\nwhile True:\n    channel.send(("big", n, b"x" * 100000))\n    n += 1\n    try:\n        x = channel.receive(0.002)\n'
                      '        break\n    except channel.TimeoutError:\n        pass\nchannel.send(("end", {tag}, time.monotonic()))'),
    # ends by itself a little after the grace period of an overlapping submission has run out
    "timed": 'time.sleep(1.035)\nchannel.send(("end", {tag}, time.monotonic()))',
}


SLOW_FINALIZER = "class _Slow:\n    def __del__(self):\n        import time\n        time.sleep(1.3)\n_keep = _Slow()\n"


def body_for(tag, outcome, inproc_main_ident=None, own_cb=False, slow_finalizer=False):
    if outcome.startswith("timed:"):
        ACTIONS[outcome] = ACTIONS["timed"].replace("1.035", outcome.split(":")[1])
    main = "threading.main_thread" if inproc_main_ident is None else f"(lambda: [t for t in threading.enumerate() if t.ident == {inproc_main_ident}][0])"
    action = ACTIONS[outcome].format(tag=tag)
    if own_cb:
        # the body listens on its own channel by callback (with an endmarker): the end of the execution then also has
        # to deliver that endmarker
        action = "channel.setcallback(lambda item: None, endmarker=None)\n" + action
    if slow_finalizer:
        action = SLOW_FINALIZER + action
    return BODY.replace("MAIN()", main + "()").format(tag=tag, action=action)


def run_history(res: Result, gw, steps, label, hid, main_ident=None):
    """drives one history on a main_thread_only gateway `gw`"""
    from execnet.gateway_base import RemoteError

    m = lambda name: name
    intervals = []
    for i, st in enumerate(steps):
        tag = hid * 100 + i
        oc = st["outcome"]
        flood = oc == "blocked" and st.get("flood", False)
        bigs = [0]

        def recv(ch_, timeout=15):
            """next item that is not part of the running body's flood (which is checked on the way)"""
            while True:
                it = ch_.receive(timeout)
                if isinstance(it, tuple) and it and it[0] == "big":
                    if it[1] != bigs[0] or it[2] != b"x" * 100000:
                        res.violation("blocked-body-disturbed", f"{label}: step {i}: flood item #{bigs[0]} arrived as {short(it, 80)}")
                    bigs[0] = it[1] + 1
                    continue
                return it

        ch = gw.remote_exec(body_for(tag, "blocked_flood" if flood else oc, main_ident, own_cb=st.get("own_cb", False), slow_finalizer=st.get("slow_finalizer", False)))
        if st.get("slow_finalizer"):
            res.count("bodies_leaving_a_slow_finalizer")
        if oc.startswith("timed"):
            oc = "timed"
        try:
            first = ch.receive(15)
        except RemoteError as e:
            if DEADLOCK_TEXT in str(e):
                prev = steps[i - 1]["outcome"] if i else None
                res.violation(f"false-deadlock-after:{prev}", f"{label}: step {i} ({oc}) submitted after the previous channel had closed was refused")
            else:
                res.violation("body-did-not-start:RemoteError", f"{label}: step {i}: {str(e)[-200:]}")
            return
        except BaseException as e:
            res.violation(f"body-did-not-start:{type(e).__name__}", f"{label}: step {i} ({oc}): {e}")
            return
        res.count("bodies_run")
        if first[0] != "start" or first[1] != tag:
            res.violation("foreign-item-on-exec-channel", f"{label}: {first!r}")
            return
        if first[2] is not True:
            res.violation("body-ran-outside-main-thread", f"{label}: step {i} ({oc}) ran in thread {first[3]}")
        start = first[4]
        probe_started = None
        if oc.startswith("timed"):
            oc = "timed"
        if oc in ("blocked", "timed"):
            for pn in range(st.get("probes", 1) if st["overlap_probe"] and oc == "blocked" else (1 if st["overlap_probe"] else 0)):
                # a submission while this body is still running must be refused with the documented text ... (every one of them)
                # (every third such submission carries a source that does not even compile: it is refused all the same,
                # the worker has no business looking at it while the main thread is taken)
                uncompilable = oc == "blocked" and (tag + pn) % 3 == 0
                if uncompilable:
                    res.count("overlap_probes_with_uncompilable_source")
                probe = gw.remote_exec("def broken(:\n    pass\n" if uncompilable else body_for(tag + 50 + pn, "return", main_ident))
                t0 = time.monotonic()
                try:
                    got = probe.receive(15)
                    if oc == "timed":
                        # the earlier body ended by itself within the grace period: then the submission legitimately runs,
                        # but only after that body has ended
                        probe_started = got
                        res.count("probe_ran_after_completion")
                    else:
                        res.violation("overlapping-remote-exec-was-run", f"{label}: step {i}: probe body delivered {got!r}")
                except RemoteError as e:
                    res.count("overlap_rejections")
                    if DEADLOCK_TEXT not in str(e):
                        res.violation("overlap-rejected-with-other-text", f"{label}: {str(e)[-200:]}")
                except BaseException as e:
                    res.violation(f"overlap-probe-ended-with-{type(e).__name__}", f"{label}: {e}")
                res.info.setdefault("overlap_rejection_latency_s", {})[f"{hid}_{i}"] = round(time.monotonic() - t0, 2)
            # ... without disturbing the earlier one: release it, it completes normally
            try:
                if oc == "blocked":
                    ch.send("release")
            except BaseException as e:
                res.violation("blocked-body-disturbed", f"{label}: step {i}: send -> {type(e).__name__}: {e}")
                return
        try:
            end = recv(ch)
            if flood:
                res.count("flooding_blocked_bodies")
        except BaseException as e:
            res.violation("body-did-not-finish" if oc != "blocked" else "blocked-body-disturbed", f"{label}: step {i} ({oc}): {type(e).__name__}: {str(e)[-200:]}")
            return
        if end[0] != "end" or end[1] != tag:
            res.violation("foreign-item-on-exec-channel", f"{label}: {end!r}")
        intervals.append((start, end[2], i))
        if probe_started is not None:
            if probe_started[4] < end[2]:
                res.violation("overlapping-remote-exec-was-run", f"{label}: step {i}: probe started at {probe_started[4]:.4f} before the running body ended at {end[2]:.4f}")
            try:
                probe.receive(15)
                probe.waitclose(15)
            except BaseException as e:
                res.violation("probe-body-did-not-finish", f"{label}: {type(e).__name__}")
        # wait for the channel to close: that is the submission protocol for the next one
        try:
            ch.waitclose(15)
            term = "closed"
        except RemoteError as e:
            term = "RemoteError"
            text = str(e)
            if oc == "raise" and f"boom {tag}" not in text:
                res.violation("remoteerror-text-wrong", f"{label}: {text[-200:]}")
            if oc in ("return", "blocked", "timed"):
                res.violation("successful-body-reported-error", f"{label}: step {i} ({oc}): {text[-200:]}")
        except BaseException as e:
            res.violation(f"exec-channel-never-closed:{oc}", f"{label}: step {i}: {type(e).__name__}")
            return
        if oc in ("raise", "sysexit", "kbi") and term != "RemoteError":
            res.violation(f"failing-body-reported-success:{oc}", f"{label}: step {i}")
    # one at a time and in submission order
    for (s1, e1, i1), (s2, e2, i2) in zip(intervals, intervals[1:]):
        if not (s1 <= e1 <= s2 <= e2):
            res.violation("executions-overlap-or-out-of-order", f"{label}: step {i1} [{s1:.4f},{e1:.4f}] vs step {i2} [{s2:.4f},{e2:.4f}]")
    res.count("histories")


def run_shard(spec):
    if spec["kind"] == "real":
        return run_real(spec)
    from execnet import gateway_base as gb
    from vlib import chanlab
    from vlib import imodel

    res = Result()
    rng = core.rng_for("C14", spec["tier"], spec["seed"], spec["shard"])
    pre = imodel.Preempt(core.REPO_SRC)
    pre.install()
    hid = 0
    try:
        if spec["kind"] == "inproc":
            todo = [(None, None)] * spec["runs"]
        else:
            lines = imodel.function_lines(gb.WorkerGateway._local_schedulexec, gb.WorkerGateway.executetask, gb.WorkerPool._try_send_to_primary_thread,
                                          gb.WorkerPool.integrate_as_primary_thread, gb.WorkerPool.spawn, gb.WorkerPool._perform_spawn, gb.Reply.run, gb.Channel.close, gb.ChannelFactory._no_longer_opened)
            res.info["sweep_lines"] = len(lines)
            sched_lines = set(imodel.function_lines(gb.WorkerGateway._local_schedulexec))
            todo = [(ln, k) for ln in lines for k in spec["ks"]]
            todo = [t for i, t in enumerate(todo) if i % spec["parts"] == spec["part"]]
        for i, (ln, k) in enumerate(todo):
            if res.enough(8):
                break
            # a fresh pair per history: the control body of the lab would itself occupy the main thread,
            # so main_thread_only pairs are driven without one
            from vlib import pairs

            sched = imodel.Sched(rng.getrandbits(32))
            pair = pairs.Pair(("pipe", "tcp")[i % 2], worker_backend="main_thread_only", sched=sched)
            steps = gen_history(rng)
            if ln is not None and ln in sched_lines:
                # the earlier body completes while the overlapping submission is being refused (the stall widens that window)
                d = {1: "1.035", 2: "1.02", 3: "1.05"}.get(k, "1.065")
                steps = [{"outcome": "timed:" + d, "overlap_probe": True}, {"outcome": "return", "overlap_probe": False}]
                res.count("racing_completion_histories")
            elif ln is not None:
                steps = steps[:3]
                for st in steps:
                    if st["overlap_probe"] and rng.random() < 0.5:
                        st["overlap_probe"] = False  # probes cost 1 s each by design of the grace period
            hid += 1
            if ln is None:
                mode = spec["mode"]
                if mode == "noise":
                    pre.set_noise(rng.getrandbits(32), rng.choice((0.02, 0.1)))
                elif mode == "pct":
                    pre.set_pct(rng.getrandbits(32), 2500, rng.choice((1, 2, 3)), stall=0.02)
                label = f"inproc mode={mode} history={steps}"
            else:
                pre.restart()
                # the overlapping probe is the 2nd submission: stall its 1st.. pass through that line
                racing = steps[0]["outcome"].startswith("timed")
                pre.set_sweep(ln[0], ln[1], 2 if racing else k, stall=0.07 if racing else 0.03)
                label = f"inproc sweep line={ln[1]} k={k} history={steps}"
            try:
                run_history(res, pair.gw, steps, label, hid, main_ident=pair.wthread.ident)
            except BaseException as e:
                res.violation(f"history-raised:{type(e).__name__}", f"{label}: {e}")
            pre.off()
            if ln is not None and pre.fired:
                res.count("sweep_fired")
            res.sig(sched.signature()[:3000])
            pair.close(3)
            res.case(core.h64(repr(steps), ln, k, i))
            if i < 2:
                res.sample({"history": steps})
    finally:
        pre.uninstall()
    return res


def run_real(spec):
    import sys

    import execnet

    res = Result()
    rng = core.rng_for("C14r", spec["tier"], spec["seed"], spec["shard"])
    # the process has used the very same spec strings before, in a group whose workers run the thread model: what a later
    # group's workers run is decided by that later group
    first = execnet.Group()
    try:
        if spec["spec"] == "popen":
            fgw = first.makegateway("popen")
        elif spec["spec"] == "python":
            fgw = first.makegateway(f"popen//python={sys.executable}")
        else:
            first.makegateway("popen//id=m//execmodel=thread")
            fgw = first.makegateway("popen//via=m")
        if fgw.remote_status().execmodel != "thread":
            res.violation("worker-model-not-the-groups", f"first group (defaults): {fgw.remote_status().execmodel}")
        res.count("spec_strings_used_before_by_a_thread_model_group")
    finally:
        first.terminate(2.0)
    for run in range(spec["runs"]):
        if res.enough(8):
            break
        group = execnet.Group()
        noise = core.worker_noise(rng.getrandbits(30), p=0.02, max_sleep_ms=5.0)
        if run % 2:
            noise.__enter__()  # line-level schedule noise inside the real worker (import-bootstrapped and "<string>" workers)
            res.count("real_runs_with_worker_side_noise")
        try:
            # where the model comes from: the spec key, the group's default for workers, or the group-wide default
            source = ("spec", "group_remote_default", "group_default")[run % 3]
            key = "//execmodel=main_thread_only" if source == "spec" else ""
            if source == "group_remote_default":
                group.set_execmodel("thread", "main_thread_only")
            elif source == "group_default":
                group.terminate(1)
                group = execnet.Group(execmodel="main_thread_only")
            res.count("model_from_" + source)
            if spec["spec"] == "popen":
                gw = group.makegateway("popen" + key)
            elif spec["spec"] == "python":
                gw = group.makegateway(f"popen//python={sys.executable}" + key)
            else:
                group.makegateway("popen//id=m//execmodel=thread")
                gw = group.makegateway("popen//via=m" + key)
            # several histories on the same worker: the state carried from one to the next is the point
            for h in range(3):
                steps = gen_history(rng)
                label = f"real {spec['spec']} (model from {source}) history={steps}"
                run_history(res, gw, steps, label, run * 10 + h + 1)
                res.case(core.h64("real", spec["spec"], repr(steps), run, h))
            st = gw.remote_status()
            if st.execmodel != "main_thread_only":
                res.violation("worker-not-main-thread-only", str(st))
        except BaseException as e:
            res.violation(f"real-run-raised:{spec['spec']}:{type(e).__name__}", str(e)[-300:])
        finally:
            if run % 2:
                noise.__exit__()
            group.terminate(3.0)
    res.sample({"real": spec["spec"], "runs": spec["runs"]})
    return res
