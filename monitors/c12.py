"""C12 - serialized byte format is dump format v2, stable and version-compatible."""

from __future__ import annotations

import hashlib
import json
import os
import subprocess
import sys

from ref import codec
from vlib import core
from vlib import values
from vlib.core import Result
from vlib.core import short

ID = "C12"
LEVEL = "exploration"
RULE = ("C01 value grammar; per value: dumps() compared byte-for-byte with an independent reference encoder, "
        "reference decode of dumps and loads of reference encode compared by canonical form; legacy-opcode streams "
        "(PY2STRING/UNICODE/LONG/LONGLONG) x 4 coercion settings; golden vectors; released 2.1.2 in a separate "
        "process; interpreters 3.10-3.13. distinct = distinct reference encodings / legacy streams")
ASSUMPTIONS = [
    "the reference codec in /verif/ref/codec.py (written from the format description) and the committed golden "
    "vectors represent 'execnet >= 1.1 on either Python major version'; only release 2.1.2 is present as a second "
    "real implementation",
]
MINIMUM = {"distinct": 300, "legacy_cases": 200, "golden_checked": 20, "foreign_versions": 255}

N = {"quick": 6000, "thorough": 250000}
NSH = {"quick": 12, "thorough": 30}
GOLDEN = os.path.join(core.VERIF, "ref", "golden.json")
PYENV = "/root/.pyenv/versions"


def interpreters():
    out = []
    for v in ("3.10.13", "3.11.7", "3.12.1", "3.13.0"):
        p = f"{PYENV}/{v}/bin/python"
        if os.path.exists(p):
            out.append(p)
    return out


def shards(tier, seed):
    s = [{"kind": "values", "n": N[tier]} for _ in range(NSH[tier])]
    s.append({"kind": "golden"})
    s.append({"kind": "release"})
    s.append({"kind": "live"})
    for p in interpreters():
        s.append({"kind": "interp", "python": p})
    return s


def digest(c) -> str:
    return hashlib.sha1(repr(c).encode("utf-8", "backslashreplace")).hexdigest()


def gen_legacy(g, rng, depth=0):
    """value tree that may contain the python-2 writer markers"""
    k = rng.random()
    if depth < 2 and rng.random() < 0.12:
        # the same payload bytes under several string opcodes in one item (each opcode has its own decoding)
        t = rng.choice(("caf\u00e9", "\u65e5\u672c", "\u00e9", "na\u00efve \U0001f600", g.gen_str() or "x"))
        pl = t.encode("utf-8")
        same = [codec.Py2Str(pl), codec.Py2Unicode(t), t, codec.Py2Str(pl), pl, codec.Py2Unicode(t)]
        rng.shuffle(same)
        return same[: rng.randint(2, len(same))]
    if k < 0.2:
        return codec.Py2Str(rng.choice([b"", b"abc", b"\xe9\xff", bytes(range(256)), rng.randbytes(rng.randint(0, 40))]))
    if k < 0.35:
        return codec.Py2Unicode(g.gen_str())
    if k < 0.5:
        n = g.gen_int()
        while abs(n) >= 10 ** 4000:
            n = g.gen_int()
        return codec.Py2Long(n)
    if k < 0.6:
        return g.gen_str()
    if k < 0.65:
        return g.gen_bytes()
    if depth < 3 and k < 0.8:
        return [gen_legacy(g, rng, depth + 1) for _ in range(rng.randint(0, 4))]
    if depth < 3 and k < 0.9:
        return tuple(gen_legacy(g, rng, depth + 1) for _ in range(rng.randint(0, 4)))
    if depth < 3:
        return {g.gen_str(): gen_legacy(g, rng, depth + 1) for _ in range(rng.randint(0, 3))}
    return None


def legacy_expected(v, a, b):
    """documented meaning of the two switches, straight from the statement"""
    t = type(v)
    if t is codec.Py2Str:
        return v.data.decode("latin-1") if a else v.data
    if t is codec.Py2Unicode:
        return v.text
    if t is codec.Py2Long:
        return v.n
    if t is str:
        return v.encode("utf-8") if b else v
    if t is list:
        return [legacy_expected(i, a, b) for i in v]
    if t is tuple:
        return tuple(legacy_expected(i, a, b) for i in v)
    if t is dict:
        return {legacy_expected(k, a, b): legacy_expected(i, a, b) for k, i in v.items()}
    return v


def run_shard(spec):
    kind = spec["kind"]
    if kind == "values":
        return run_values(spec)
    if kind == "golden":
        return run_golden(spec)
    if kind == "release":
        return run_release(spec)
    if kind == "interp":
        return run_interp(spec)
    if kind == "live":
        return run_live(spec)
    raise ValueError(kind)


def concurrent_dumps(res, rng, g, execnet):
    """dumps() is a function of its argument: calls overlapping in several threads each return the v2 bytes of their own value"""
    import sys
    import threading

    T = 3
    work = []
    for t in range(T):
        vals = []
        for _ in range(60):
            v = g.value()
            try:
                vals.append((v, codec.encode(v)))
            except RecursionError:
                pass
        work.append(vals)
    bad: list = []
    start = threading.Barrier(T)

    def worker(t):
        start.wait(10)
        for _round in range(3):
            for v, refb in work[t]:
                try:
                    b = execnet.dumps(v)
                except BaseException as e:  # noqa
                    bad.append((t, f"{type(e).__name__}: {e}", short(v)))
                    continue
                if b != refb:
                    bad.append((t, f"{len(b)} bytes instead of {len(refb)}", short(v)))

    old = sys.getswitchinterval()
    sys.setswitchinterval(1e-5)
    try:
        ths = [threading.Thread(target=worker, args=(t,), daemon=True) for t in range(T)]
        for th in ths:
            th.start()
        for th in ths:
            th.join(60)
    finally:
        sys.setswitchinterval(old)
    res.count("concurrent_dumps_calls", sum(len(w) for w in work) * 3)
    if bad:
        res.violation("concurrent-dumps-bytes-differ-from-v2-format", f"{len(bad)} of the overlapping calls; first: thread {bad[0][0]}: {bad[0][1]} for {bad[0][2]}")


def _poison(x, depth=0):
    if depth > 60:
        return
    if isinstance(x, list):
        for y in x:
            _poison(y, depth + 1)
        x.append("poison")
    elif isinstance(x, dict):
        for y in list(x.values()):
            _poison(y, depth + 1)
        x["poison"] = "poison"
    elif isinstance(x, set):
        x.add("poison")
    elif isinstance(x, tuple):
        for y in x:
            _poison(y, depth + 1)


def run_values(spec):
    import execnet

    res = Result()
    rng = core.rng_for("C12", spec["tier"], spec["seed"], spec["shard"])
    g = values.Gen(rng, max_bytes=3000, huge_ints=False)
    unsupported = values.unsupported_leaves()
    concurrent_dumps(res, rng, g, execnet)
    for i in range(spec["n"]):
        v = g.special(i // 11 + spec["shard"]) if i % 11 == 0 else g.value()
        cv = values.canon(v)
        try:
            refb = codec.encode(v)
        except RecursionError:
            continue
        res.case(core.h64(refb))
        if i < 2:
            res.sample({"value": short(v, 120), "hex": refb.hex()[:160]})
        if i % 7 == 3:
            # a dumps() that fails half-way (unsupported leaf deep inside a container) must leave nothing behind
            # that shows up in the bytes of the next one
            nm, factory, hashable = unsupported[rng.randrange(len(unsupported))]
            try:
                bad, _path = values.plant(rng, g.value(), factory(), hashable, 2)
                execnet.dumps(bad)
            except BaseException:
                pass
            res.count("byte_compares_after_a_failed_dumps")
        try:
            b = execnet.dumps(v)
        except BaseException as e:
            res.violation(f"dumps-raises:{type(e).__name__}", f"{e} for {short(v)}")
            continue
        res.count("byte_compares")
        if i % 5 == 2:
            # the stream API writes the very same bytes, however it chops them into write() calls
            pieces = []

            class _W:
                def write(self, d):
                    pieces.append(bytes(d))

            try:
                execnet.dump(_W(), v)
                if b"".join(pieces) != refb:
                    res.violation("dump-stream-bytes-differ-from-v2-format", f"{len(pieces)} writes, {len(b''.join(pieces))} bytes instead of {len(refb)} for {short(v)}")
            except BaseException as e:  # noqa
                res.violation(f"dump-raises:{type(e).__name__}", f"{e} for {short(v)}")
            res.count("dump_stream_compares")
        if b != refb:
            j = next((k for k in range(min(len(b), len(refb))) if b[k] != refb[k]), min(len(b), len(refb)))
            op = refb[max(0, j - 5):j + 5].hex()
            res.violation(f"bytes-differ-from-v2-format:{classify_diff(v, b, refb, j)}",
                          f"offset {j}: got {b[max(0, j - 5):j + 8].hex()} want ..{op} value={short(v)}")
            continue
        try:
            rv = codec.decode(b)
            if values.canon(rv) != cv:
                res.violation("refdecode-of-dumps-differs", short(v))
        except codec.RefError as e:
            res.violation("refdecode-of-dumps-fails", f"{e} {short(v)}")
        try:
            w = execnet.loads(refb)
            if values.canon(w) != cv:
                res.violation("loads-of-ref-encoding-differs", short(v))
            elif i % 50 == 7 and len(refb) < 20000:
                # persisted data: several dumps appended to one file (after an application header) load back one by one
                from monitors import c01 as _c01

                others = []
                for x in (g.value(2), g.value(2)):
                    try:
                        others.append((x, values.canon(x), codec.encode(x)))
                    except RecursionError:
                        pass
                _c01.stream_sequence(res, execnet, rng, [(v, cv, refb)] + others)
            elif i % 4 == 0:
                # "loads to the same value" every time: what the receiver of an earlier load did to its containers is
                # not part of a later load of the same bytes
                _poison(w)
                if values.canon(execnet.loads(refb)) != cv:
                    res.violation("loads-of-ref-encoding-differs-after-an-earlier-result-was-mutated", short(v))
        except BaseException as e:
            res.violation(f"loads-of-ref-encoding-raises:{type(e).__name__}", f"{e} {short(v)}")

    # legacy opcodes x coercion switches
    for i in range(max(200, spec["n"] // 6)):
        v = gen_legacy(g, rng)
        data = codec.encode(v)
        res.case(core.h64("legacy", data))
        for a in (False, True):
            for b_ in (False, True):
                res.count("legacy_cases")
                try:
                    want = legacy_expected(v, a, b_)
                    cwant = values.canon(want)
                except (TypeError, UnicodeError):
                    continue
                try:
                    got = execnet.loads(data, py2str_as_py3str=a, py3str_as_py2str=b_)
                except BaseException as e:
                    res.violation(f"legacy-loads-raises:{type(e).__name__}", f"{e} settings=({a},{b_}) hex={data.hex()[:200]}")
                    continue
                if values.canon(got) != cwant:
                    res.violation(f"legacy-coercion-wrong:py2str_as_py3str={a},py3str_as_py2str={b_}",
                                  f"got {short(got, 150)} want {short(want, 150)} hex={data.hex()[:120]}")
                    continue
                import io as _io

                got2 = execnet.load(_io.BytesIO(data), py2str_as_py3str=a, py3str_as_py2str=b_)
                if values.canon(got2) != cwant:
                    res.violation("legacy-coercion-wrong-load-stream", f"settings=({a},{b_}) hex={data.hex()[:120]}")
    # the switches belong to one load: loads running at the same time with other settings (another thread, a gateway's
    # receiver) do not influence each other
    if spec["shard"] % 2 == 0:
        import sys
        import threading

        jobs = {}
        for a in (False, True):
            for b_ in (False, True):
                lst = []
                while len(lst) < 80:
                    v = gen_legacy(g, rng)
                    try:
                        lst.append((codec.encode(v), values.canon(legacy_expected(v, a, b_))))
                    except (TypeError, UnicodeError):
                        continue
                jobs[(a, b_)] = lst
        wrong: list = []
        start = threading.Barrier(4)

        def loader(a, b_):
            start.wait(10)
            for _round in range(3):
                for data, cwant in jobs[(a, b_)]:
                    try:
                        got = execnet.loads(data, py2str_as_py3str=a, py3str_as_py2str=b_)
                        if values.canon(got) != cwant:
                            wrong.append(((a, b_), data.hex()[:80], short(got, 80)))
                    except BaseException as e:  # noqa
                        wrong.append(((a, b_), data.hex()[:80], f"{type(e).__name__}: {e}"))

        oldsw = sys.getswitchinterval()
        sys.setswitchinterval(1e-5)
        try:
            ths = [threading.Thread(target=loader, args=k, daemon=True) for k in jobs]
            for t in ths:
                t.start()
            for t in ths:
                t.join(60)
        finally:
            sys.setswitchinterval(oldsw)
        res.count("concurrent_legacy_loads", 4 * 80 * 3)
        if wrong:
            res.violation("legacy-coercion-wrong-under-concurrent-loads",
                          f"{len(wrong)} loads; first: settings={wrong[0][0]} hex={wrong[0][1]} -> {wrong[0][2]}")
    # defaults of the public API: both switches False
    for v, want in ((codec.Py2Str(b"ab"), b"ab"), (codec.Py2Unicode("ab"), "ab"), ("ab", "ab")):
        got = execnet.loads(codec.encode(v))
        if values.canon(got) != values.canon(want):
            res.violation("legacy-default-switches-wrong", f"{short(got)} != {short(want)}")

    # foreign version byte
    body = codec.encode([1, "x"], versioned=False)
    if spec["shard"] == 0:
        for vb in range(256):
            if vb == 2:
                continue
            res.count("foreign_versions")
            try:
                execnet.loads(bytes([vb]) + body)
            except execnet.DataFormatError:
                pass
            except BaseException as e:
                res.violation(f"foreign-version-wrong-exception:{type(e).__name__}", f"version byte {vb}")
            else:
                res.violation("foreign-version-accepted", f"version byte {vb}")
    for k, c in g.counts.items():
        res.count("gen_" + k, c)
    return res


def classify_diff(v, b, refb, j) -> str:
    """name the format element where the bytes first diverge"""
    # walk the reference stream opcode by opcode to find the opcode covering offset j
    names = {v_: k for k, v_ in codec.OPC.items()}
    p = 1
    last = "VERSION"
    try:
        while p <= j and p < len(refb):
            op = refb[p:p + 1]
            last = names.get(op, "?")
            p += 1
            if op in b"FGB@OEK":
                p += 4
            elif op in b"HIANMS":
                import struct

                n = struct.unpack("!i", refb[p:p + 4])[0]
                p += 4 + n
            elif op == b"D":
                p += 8
            elif op == b"T":
                p += 16
    except Exception:
        pass
    return last


GOLDEN_EXPRS = [
    "None", "True", "False", "0", "1", "-1", "2147483647", "-2147483648", "2147483648", "-2147483649",
    "2**63", "-2**64", "10**30", "0.0", "-0.0", "1.5", "float('inf')", "float('-inf')", "1e300", "5e-324",
    "complex(1.5, -2.0)", "complex(0.0, -0.0)", "b''", "b'abc'", "bytes(range(256))", "''", "'abc'", "'\\x00'",
    "'\\xe9'", "'\\u65e5\\u672c'", "'\\U0001d11e'", "[]", "[1, 'a', None]", "[[[]]]", "()", "(1,)", "(1, (2, 3))",
    "{}", "{'a': 1}", "{'z': 1, 'a': 2}", "{1: {2: {3: []}}}", "{(1, 2): 'k'}", "set()", "{1}", "frozenset()",
    "frozenset([1])", "[True, 1, 1.0]", "{'k': (None, [b'x', 2.5], {'n': -5})}", "[2**31 - 1, 2**31, -2**31, -2**31 - 1]",
    "{frozenset([7]): {7}}", "(0.1, 1/3)", "[float.fromhex('0x1.fffffffffffffp+1023')]",
]


def run_golden(spec):
    import execnet

    res = Result()
    with open(GOLDEN) as f:
        gold = json.load(f)
    for expr, hx in gold["vectors"]:
        v = eval(expr)
        res.case(core.h64("golden", expr))
        res.count("golden_checked")
        b = execnet.dumps(v)
        if b.hex() != hx:
            res.violation("golden-vector-bytes-differ", f"{expr}: got {b.hex()} want {hx}")
            continue
        w = execnet.loads(bytes.fromhex(hx))
        if values.canon(w) != values.canon(v):
            res.violation("golden-vector-loads-differ", expr)
    for expr, hx, a, b_, want_expr in gold["legacy"]:
        res.count("golden_checked")
        res.case(core.h64("golden-legacy", expr, a, b_))
        got = execnet.loads(bytes.fromhex(hx), py2str_as_py3str=a, py3str_as_py2str=b_)
        if values.canon(got) != values.canon(eval(want_expr)):
            res.violation(f"golden-legacy-differs:py2str_as_py3str={a},py3str_as_py2str={b_}", f"{expr}: got {short(got)} want {want_expr}")
    res.sample({"golden": gold["vectors"][7]})
    return res


RELEASE_CHILD = r"""
import sys, json, hashlib
import os
_repo = os.environ.get('VERIF_REPO', '/repo')
sys.path = [p for p in sys.path if not p.startswith(_repo)]
import execnet
assert not execnet.__file__.startswith(_repo), execnet.__file__
sys.path.append('/verif')
from vlib.values import canon
out = {"version": execnet.__version__, "file": execnet.__file__, "items": []}
for hx in json.load(sys.stdin):
    try:
        v = execnet.loads(bytes.fromhex(hx))
        d = hashlib.sha1(repr(canon(v)).encode("utf-8", "backslashreplace")).hexdigest()
        try:
            b2 = execnet.dumps(v).hex()
        except Exception as e:
            b2 = "ERR:" + type(e).__name__
        out["items"].append([d, b2])
    except Exception as e:
        out["items"].append(["ERR:" + type(e).__name__ + ":" + str(e)[:80], ""])
json.dump(out, sys.stdout)
"""


def run_release(spec):
    import execnet

    res = Result()
    rng = core.rng_for("C12rel", spec["tier"], spec["seed"])
    g = values.Gen(rng, max_bytes=2000, huge_ints=False)
    n = 1500 if spec["tier"] == "quick" else 20000
    vals = [g.special(i // 7) if i % 7 == 0 else g.value() for i in range(n)]
    dumped = []
    keep = []
    for v in vals:
        try:
            dumped.append(execnet.dumps(v).hex())
            keep.append(v)
        except BaseException:
            pass  # reported by the values shards
    env = dict(os.environ)
    env.pop("PYTHONPATH", None)
    env["PYTHONHASHSEED"] = "0"
    p = subprocess.run([core.PY, "-c", RELEASE_CHILD], input=json.dumps(dumped).encode(), env=env,
                       capture_output=True, timeout=600, cwd="/")
    if p.returncode != 0:
        res.inconclusive.append("released execnet child failed: " + p.stderr.decode()[-500:])
        return res
    out = json.loads(p.stdout)
    res.info["released_implementation"] = f"{out['version']} at {out['file']}"
    for v, hx, (d, b2) in zip(keep, dumped, out["items"]):
        res.case(core.h64("rel", hx))
        res.count("release_loads")
        if d.startswith("ERR:"):
            res.violation(f"release-cannot-load-repo-dump:{d.split(':')[1]}", f"{d} value={short(v)}")
            continue
        if d != digest(values.canon(v)):
            res.violation("release-loads-different-value", short(v))
            continue
        if b2.startswith("ERR:"):
            res.count("release_own_dump_limitations")  # e.g. 2.1.2 cannot dump ints < -2**31
            continue
        try:
            w = execnet.loads(bytes.fromhex(b2))
        except BaseException as e:
            res.violation(f"repo-cannot-load-release-dump:{type(e).__name__}", short(v))
            continue
        res.count("release_dumps_loaded")
        if values.canon(w) != values.canon(v):
            res.violation("repo-loads-release-dump-differently", short(v))
    res.sample({"released": res.info["released_implementation"], "n": len(keep)})
    return res


INTERP_CHILD = r"""
import sys, json, hashlib
sys.path.insert(0, '/verif')
import random
from vlib import values
from ref import codec
import execnet
import os
assert execnet.__file__.startswith(os.path.join(os.environ.get('VERIF_REPO', '/repo'), 'src')), execnet.__file__
seed, n = json.load(sys.stdin)
g = values.Gen(random.Random(seed), max_bytes=600, huge_ints=False)
bad = []
hs = hashlib.sha1(); hr = hashlib.sha1(); nset = 0
for i in range(n):
    v = g.special(i // 7) if i % 7 == 0 else g.value()
    r = codec.encode(v)
    try:
        b = execnet.dumps(v)
    except Exception as e:
        bad.append([i, "raise " + type(e).__name__]); continue
    if b != r:
        bad.append([i, b.hex()[:80], r.hex()[:80]])
    c = values.canon(execnet.loads(b))
    if c != values.canon(v):
        bad.append([i, "roundtrip"])
    setfree = ("'set'" not in repr(c)) and ("'frozenset'" not in repr(c))
    if setfree:
        hs.update(b); hr.update(r)
    else:
        nset += 1
json.dump({"version": sys.version.split()[0], "bad": bad[:20], "nbad": len(bad), "dumps_digest": hs.hexdigest(),
           "ref_digest": hr.hexdigest(), "n": n, "with_sets": nset}, sys.stdout)
"""


def run_interp(spec):
    res = Result()
    n = 3000 if spec["tier"] == "quick" else 40000
    seed = core.case_seed("C12interp", spec["seed"])
    env = {"PYTHONPATH": core.REPO_SRC, "PYTHONHASHSEED": "0", "PYTHONDONTWRITEBYTECODE": "1", "PATH": os.environ.get("PATH", ""),
           "VERIF_REPO": core.REPO}
    outs = []
    for py in (spec["python"], core.PY):
        p = subprocess.run([py, "-S", "-c", INTERP_CHILD] if py != core.PY else [py, "-c", INTERP_CHILD],
                           input=json.dumps([seed, n]).encode(), env=env, capture_output=True, timeout=900, cwd="/")
        if p.returncode != 0:
            if py == spec["python"]:
                res.violation("dumps-unusable-on-interpreter", f"{py}: {p.stderr.decode()[-600:]}")
            else:
                res.inconclusive.append(p.stderr.decode()[-300:])
            return res
        outs.append(json.loads(p.stdout))
    o, base = outs
    res.evaluations += o["n"]
    res.count("interp_values", o["n"])
    res.distinct.add(core.h64("interp", o["version"]))
    res.distinct.add(core.h64("interp-base", base["version"]))
    res.info["interpreters_used"] = [o["version"]]
    if o["nbad"]:
        res.violation(f"interpreter-{o['version']}-dumps-deviates", json.dumps(o["bad"][:3]))
    if o["ref_digest"] == base["ref_digest"]:
        res.count("cross_interpreter_digest_compared")
        if o["dumps_digest"] != base["dumps_digest"]:
            res.violation("cross-interpreter-bytes-differ", f"{o['version']} vs {base['version']}")
    res.sample(o)
    return res


# ---------------------------------------------------------------------------
# live channels: coercion switches and RECONFIGURE frames


def run_live(spec):
    import struct
    import threading

    import execnet
    from execnet import gateway_base as gb
    from vlib import pairs

    res = Result()
    rng = core.rng_for("C12live", spec["tier"], spec["seed"])
    M = codec.MSG

    # (1) initiator side: a scripted peer feeds crafted DATA frames to a real Gateway
    for rnd in range(6 if spec["tier"] == "quick" else 60):
        sp = pairs.ScriptedPeer(tee=True)
        tee = sp.io_a
        gw = sp.gw

        class _Out:
            write = staticmethod(sp.feed)

        peer_out = _Out
        try:
            settings = [(True, False), (False, False), (True, True), (False, True)]
            rng.shuffle(settings)
            gwcfg = rng.choice([None] + settings)
            if gwcfg is not None:
                gw.reconfigure(py2str_as_py3str=gwcfg[0], py3str_as_py2str=gwcfg[1])
            eff_default = gwcfg if gwcfg is not None else (True, False)  # documented channel default
            for cfg in [None] + settings:
                ch = gw.newchannel()
                eff = eff_default
                if cfg is not None:
                    ch.reconfigure(py2str_as_py3str=cfg[0], py3str_as_py2str=cfg[1])
                    eff = cfg
                use_cb = rng.random() < 0.4
                got = []
                if use_cb:
                    ch.setcallback(got.append)
                items = [codec.Py2Str(b"caf\xe9"), "text\xe9", codec.Py2Unicode("uሴ"), codec.Py2Long(2**40),
                         [codec.Py2Str(b"x"), ("y", codec.Py2Str(b""))]]
                for it in items:
                    peer_out.write(codec.frame(M["CHANNEL_DATA"], ch.id, codec.encode(it, versioned=False)))
                for it in items:
                    res.count("legacy_cases")
                    res.count("live_items")
                    want = legacy_expected(it, *eff)
                    if use_cb:
                        pairs.wait_until(lambda: len(got) >= 1, 5)
                        g_ = got.pop(0) if got else "<nothing>"
                    else:
                        g_ = ch.receive(5)
                    if values.canon(g_) != values.canon(want):
                        res.violation(f"live-channel-coercion-wrong:cfg={eff}:{'callback' if use_cb else 'receive'}",
                                      f"channel cfg {cfg}, gateway cfg {gwcfg}: got {short(g_)} want {short(want)}")
                res.case(core.h64("live", gwcfg, cfg, use_cb))
            # emitted RECONFIGURE frames
            frames, rest = codec.parse_frames(tee.written_stream())
            rec = [(c, i, codec.decode(p, versioned=False)) for c, i, p, *_ in frames if c == M["RECONFIGURE"]]
            want_rec = ([(1, 0, gwcfg)] if gwcfg is not None else [])
            chan_rec = [(c, i, v) for c, i, v in rec if i != 0]
            if [(c, i, tuple(v)) for c, i, v in rec if i == 0] != want_rec:
                res.violation("gateway-reconfigure-frame-wrong", repr(rec))
            if sorted(tuple(v) for _, _, v in chan_rec) != sorted(settings):
                res.violation("channel-reconfigure-frames-wrong", repr(rec))
            res.count("reconfigure_frames", len(rec))
        except BaseException as e:
            res.violation(f"live-harness-exception:{type(e).__name__}", repr(e))
        finally:
            sp.shutdown(5)

    # (2) worker side: RECONFIGURE frames received by a WorkerGateway steer what remote code sees
    for rnd in range(4 if spec["tier"] == "quick" else 40):
        si = pairs.ScriptedInitiator("thread")

        class out:
            write = staticmethod(si.feed)

        try:
            cid = 1
            for gwcfg in (None, (False, True), (True, True)):
                if gwcfg is not None:
                    out.write(codec.frame(M["RECONFIGURE"], 0, codec.encode(gwcfg, versioned=False)))
                for cfg in (None, (False, False), (True, False), (False, True)):
                    eff = cfg or gwcfg or (True, False)
                    src = ("for i in range(2):\n x = channel.receive()\n channel.send(type(x).__name__)\n", None, None, {})
                    out.write(codec.frame(M["CHANNEL_EXEC"], cid, codec.encode(src, versioned=False)))
                    if cfg is not None:
                        # as Channel.reconfigure does it: the channel exists remotely (EXEC went first)
                        out.write(codec.frame(M["RECONFIGURE"], cid, codec.encode(cfg, versioned=False)))
                    out.write(codec.frame(M["CHANNEL_DATA"], cid, codec.encode(codec.Py2Str(b"a"), versioned=False)))
                    out.write(codec.frame(M["CHANNEL_DATA"], cid, codec.encode("b", versioned=False)))
                    want = ["str" if eff[0] else "bytes", "bytes" if eff[1] else "str"]
                    got = []
                    while True:
                        code, ch, payload = si.read_frame()
                        if ch != cid:
                            got.append(f"frame for foreign channel {ch} code {code}")
                        elif code == M["CHANNEL_DATA"]:
                            got.append(codec.decode(payload, versioned=False))
                        elif code == M["CHANNEL_CLOSE_ERROR"]:
                            got.append("ERR " + codec.decode(payload, versioned=False)[-200:])
                            break
                        elif code == M["CHANNEL_CLOSE"]:
                            break
                    res.count("legacy_cases")
                    res.count("worker_reconfigure_cases")
                    res.case(core.h64("wlive", gwcfg, cfg))
                    if got != want:
                        res.violation(f"worker-side-reconfigure-not-applied:cfg={eff}", f"gateway cfg {gwcfg} channel cfg {cfg}: remote saw {got}, want {want}")
                    cid += 2
        except BaseException as e:
            res.violation(f"worker-live-harness-exception:{type(e).__name__}", repr(e))
        finally:
            try:
                out.write(codec.frame(M["GATEWAY_TERMINATE"]))
            except OSError:
                pass
            si.close(5)
    res.sample({"live": "scripted peer -> Gateway channels with 4 coercion settings, callbacks and receive"})
    return res
