"""C02 - channels deliver each item exactly once, in order, to the right channel."""

from __future__ import annotations

import hashlib
import threading
import time

from ref import codec
from vlib import core
from vlib.core import Result
from vlib.core import short

ID = "C02"
LEVEL = "exploration"
RULE = ("generated channel programs (1-6 channels made by remote_exec / newchannel on either side, 0-3 sender threads per channel and "
        "direction, 0-200 items with 0 B-256 KB padding, receiving end = receive | iteration | callback | 2-3 competing receivers, both "
        "directions at once) on in-process gateway pairs (pipe, TCP) with sync-point perturbation, line-level noise, PCT stalls and a "
        "single-pre-emption sweep over Channel, ChannelFactory, _thread_receiver, _send, Message.to_io/from_io; plus real popen / socket / "
        "via workers. Every item is unique (side, channel, thread, seq). distinct = distinct (program, schedule) cases; signatures = "
        "distinct sync-point interleavings")
ASSUMPTIONS = ["injected stalls <= 30 ms at line boundaries of execnet code; 'lost' = not delivered within 10 s after the last send"]
MINIMUM = {"items_delivered": 20000, "signatures": 50, "runs": 100, "sweep_fired": 100}
SHARD_TIMEOUT = {"quick": 120, "thorough": 2400}


def shards(tier, seed):
    out = []
    n = 10 if tier == "quick" else 20
    for i in range(n):
        out.append({"kind": "random", "mode": ("sync", "noise", "pct")[i % 3], "runs": 25 if tier == "quick" else 1500,
                    "transport": ("pipe", "tcp")[i % 2]})
    nsw = 5 if tier == "quick" else 12
    for i in range(nsw):
        out.append({"kind": "sweep", "part": i, "parts": nsw, "ks": [1, 3] if tier == "quick" else [1, 2, 3, 5]})
    out.append({"kind": "drop_vs_close", "ks": [1] if tier == "quick" else [1, 2, 3]})
    for sp in ("popen", "socket", "via"):
        out.append({"kind": "real", "spec": sp, "runs": 2 if tier == "quick" else 25})
    return out


def run_shard(spec):
    if spec["kind"] == "real":
        return run_real(spec)
    if spec["kind"] == "drop_vs_close":
        return run_drop_vs_close(spec)
    return run_inproc(spec)


def run_drop_vs_close(spec):
    """One channel is being closed by the peer at the moment its last local reference is dropped - with the receiver thread
    held at every line of the close handling in turn. Whatever becomes of that channel, the bystander channels get every
    item, in order, and the gateway goes on receiving."""
    import gc

    from execnet import gateway_base as gb
    from vlib import imodel
    from vlib import pairs

    res = Result()
    rng = core.rng_for("C02d", spec["tier"], spec["seed"], spec["shard"])
    pre = imodel.Preempt(core.REPO_SRC)
    pre.install()
    M = codec.MSG
    try:
        lines = imodel.function_lines(gb.ChannelFactory._local_close, gb.ChannelFactory._no_longer_opened, gb.ChannelFactory._local_receive,
                                      gb.Channel.__del__)
        res.info["drop_vs_close_sweep_lines"] = len(lines)
        targets = [(ln, k, how) for ln in lines for k in spec["ks"] for how in ("CHANNEL_CLOSE", "CHANNEL_CLOSE_ERROR", "CHANNEL_LAST_MESSAGE", "CHANNEL_DATA")]
        for (fn, ln), k, how in targets:
            if res.enough():
                break
            sp = pairs.ScriptedPeer(tee=False, transport="pipe")
            try:
                gw = sp.gw
                holder = [gw.newchannel()]
                xid = holder[0].id
                by = gw.newchannel()
                seen: list = []
                by_cb = gw.newchannel()
                by_cb.setcallback(seen.append)
                n = 6
                data = lambda cid, v: codec.frame(M["CHANNEL_DATA"], cid, codec.encode(v, versioned=False))
                first = b"".join(data(by.id, ("by", i)) + data(by_cb.id, ("cb", i)) for i in range(n))
                if how == "CHANNEL_CLOSE_ERROR":
                    ender = codec.frame(M[how], xid, codec.encode("the peer gives up", versioned=False))
                elif how == "CHANNEL_DATA":
                    ender = data(xid, "one more item")
                else:
                    ender = codec.frame(M[how], xid, b"")
                second = b"".join(data(by.id, ("by", i)) + data(by_cb.id, ("cb", i)) for i in range(n, 2 * n))
                import io
                import sys

                real_stderr, sys.stderr = sys.stderr, io.StringIO()
                try:
                    sp.feed(first)
                    pairs.wait_until(lambda: len(seen) >= n, 10.0)
                    pre.restart()
                    pre.set_sweep(fn, ln, k, stall=0.06)
                    sp.feed(ender)
                    time.sleep(rng.choice((0.0, 0.01, 0.02, 0.03)))
                    holder.clear()
                    gc.collect()
                    sp.feed(second)
                    got = []
                    try:
                        for _ in range(2 * n):
                            got.append(by.receive(10))
                    except BaseException as e:  # noqa
                        got.append(f"{type(e).__name__}: {e}")
                    pairs.wait_until(lambda: len(seen) >= 2 * n, 5.0)
                finally:
                    pre.off()
                    sys.stderr = real_stderr
                if pre.fired:
                    res.count("drop_vs_close_sweep_fired")
                res.count("drop_vs_close_runs")
                res.case(core.h64("drop-vs-close", ln, k, how))
                label = f"peer sends {how} for a channel whose last reference is dropped meanwhile; receiver held at line {ln} (hit {k})"
                if got != [("by", i) for i in range(2 * n)]:
                    res.violation("bystander-items-lost-when-drop-meets-close", f"{label}: bystander received {short(got, 200)}")
                if seen != [("cb", i) for i in range(2 * n)]:
                    res.violation("bystander-items-lost-when-drop-meets-close:callback", f"{label}: bystander callback saw {short(seen, 200)}")
                if not gw.hasreceiver():
                    res.violation("receiver-thread-died-when-drop-meets-close", label)
            finally:
                sp.shutdown(2)
        # a consumer that polls with a short timeout while the last items and the close arrive: held at every line of
        # receive() in turn, it still gets every item before the end
        rlines = imodel.function_lines(gb.Channel.receive)
        res.info["polling_receive_sweep_lines"] = len(rlines)
        for (fn, ln) in rlines:
            for k in spec["ks"] + [4]:
                if res.enough():
                    break
                sp = pairs.ScriptedPeer(tee=False, transport="pipe")
                try:
                    ch = sp.gw.newchannel()
                    n = 5
                    feed = b"".join(codec.frame(M["CHANNEL_DATA"], ch.id, codec.encode(("x", i), versioned=False)) for i in range(n))
                    feed += codec.frame(M[rng.choice(("CHANNEL_CLOSE", "CHANNEL_LAST_MESSAGE"))], ch.id, b"")
                    got: list = []

                    def consumer():
                        t_end = time.monotonic() + 10
                        while time.monotonic() < t_end:
                            try:
                                got.append(ch.receive(0.004))
                            except ch.TimeoutError:
                                continue
                            except EOFError:
                                got.append("EOF")
                                return
                            except BaseException as e:  # noqa
                                got.append(f"{type(e).__name__}: {e}")
                                return

                    pre.restart()
                    pre.set_sweep(fn, ln, k, stall=0.06)
                    ct = threading.Thread(target=consumer, daemon=True)
                    ct.start()
                    time.sleep(rng.choice((0.005, 0.015, 0.03)))
                    sp.feed(feed)
                    ct.join(15)
                    pre.off()
                    if pre.fired:
                        res.count("polling_receive_sweep_fired")
                    res.count("polling_receive_runs")
                    res.case(core.h64("poll-vs-close", ln, k))
                    if got != [("x", i) for i in range(n)] + ["EOF"]:
                        res.violation("item-missing:polling-receive-meets-close", f"polling receive(0.004) held at line {ln} (hit {k}) while {n} items and the close arrive: got {short(got, 200)}")
                finally:
                    sp.shutdown(2)
    finally:
        pre.uninstall()
    return res


# ---------------------------------------------------------------------------


def gen_program(rng, small=False):
    nchan = rng.choice((1, 2, 2, 3, 6)) if not small else rng.choice((1, 2))
    chans = []
    budget = 6 << 20
    for c in range(nchan):
        ch = {"make": rng.choice(("newchannel_local", "newchannel_remote", "remote_exec")), "dirs": {}}
        for d in ("l2r", "r2l"):
            nthreads = rng.choice((0, 1, 1, 2, 3)) if not small else rng.choice((1, 2))
            if nthreads == 0:
                continue
            total = rng.choice((0, 1, 5, 20, 60, 200)) if not small else rng.choice((3, 6))
            per = [total // nthreads + (1 if i < total % nthreads else 0) for i in range(nthreads)]
            pads = []
            for n in per:
                p = []
                for _ in range(n):
                    k = rng.random()
                    size = 0 if k < 0.4 else rng.choice((1, 10, 100, 1000)) if k < 0.9 else rng.choice((5000, 70000, 262144))
                    if size > budget:
                        size = 10
                    budget -= size
                    p.append(size)
                pads.append(p)
            # (at most one polling consumer per program: several of them spinning starve the other threads of a loaded machine)
            mode = rng.choice(("receive", "iter", "callback", "compete") + (("poll",) if not any(dd.get("mode") == "poll" for c_ in chans + [ch] for dd in c_["dirs"].values()) else ()))
            ch["dirs"][d] = {"pads": pads, "mode": mode, "nrecv": rng.choice((2, 3)) if mode == "compete" else 1,
                             # when the receiving end is attached: before any send, or while items are already in flight/queued
                             "attach": rng.choice((None, None, 0.0, 0.001, 0.004))}
        if not ch["dirs"]:
            ch["dirs"]["l2r"] = {"pads": [[0, 0]], "mode": "receive", "nrecv": 1, "attach": None}
        chans.append(ch)
    prog = {"chans": chans, "stray_reconfigure": rng.random() < 0.2}
    if rng.random() < 0.5:
        # one more conversation whose receiving side keeps only its callback (gw.remote_exec(..).setcallback(cb) idiom:
        # the channel object is garbage collected, the callback must go on receiving)
        nthreads = rng.choice((1, 1, 2))
        prog["dropped_cb"] = {"receiver": rng.choice(("L", "R")), "pads": [[rng.choice((0, 0, 10, 1000, 70000)) for _ in range(rng.choice((1, 5, 30)))]
                                                                         for _ in range(nthreads)]}
    return prog


def norm_item(it):
    """(payload, side, channel, thread, seq) -> (side, channel, thread, seq, payload)"""
    if isinstance(it, tuple) and len(it) == 5 and isinstance(it[0], bytes) and not isinstance(it[4], bytes):
        return (it[1], it[2], it[3], it[4], it[0])
    return it


def pad_bytes(side, c, t, s, size):
    if size == 0:
        return b""
    seedb = f"{side}{c}.{t}.{s}".encode()
    return (hashlib.sha1(seedb).digest() * (size // 20 + 1))[:size]


def run_program(res: Result, lab, prog, label):
    """drives one program on a Lab; returns True if it completed"""
    from vlib import chanlab

    # channels are created concurrently (several threads calling newchannel / remote_exec on both sides at once), then the
    # plain ones are introduced to the other side one by one over the control channel
    if prog.get("stray_reconfigure"):
        # one unrelated conversation switches its string coercion (on both ends): a per-channel setting, nobody else's
        tlc, trc = lab.pair_newchannel_local()
        tlc.reconfigure(py2str_as_py3str=True, py3str_as_py2str=True)
        trc.reconfigure(py2str_as_py3str=True, py3str_as_py2str=True)
        tlc.send("text")
        trc.send("text")
        tlc.receive(10)
        trc.receive(10)
        tlc.close()
        trc.waitclose(10)
        res.count("programs_after_a_stray_channel_reconfigure")
    n = len(prog["chans"])
    made = [None] * n
    cerr = []
    cstart = threading.Barrier(n) if n > 1 else None

    def create(ci, how):
        try:
            if cstart is not None:
                cstart.wait(10)
            if how == "newchannel_local":
                made[ci] = ("L", lab.gw.newchannel())
            elif how == "newchannel_remote":
                made[ci] = ("R", lab.remote_gateway.newchannel())
            else:
                made[ci] = ("X", lab.pair_remote_exec())
        except BaseException as e:  # noqa
            cerr.append(f"{how}: {type(e).__name__}: {e}")

    cths = [threading.Thread(target=create, args=(ci, ch["make"]), daemon=True) for ci, ch in enumerate(prog["chans"])]
    for t in cths:
        t.start()
    for t in cths:
        t.join(15)
    if cerr or any(m is None for m in made):
        res.violation("channel-creation-failed", f"{label}: {cerr[:2]}")
        return False
    ends = []  # (lc, rc, finish)
    for ci, (tag, obj) in enumerate(made):
        if tag == "L":
            lab.control_local.send(obj)
            lc, rc, fin = obj, lab.control_remote.receive(10), None
        elif tag == "R":
            lab.control_remote.send(obj)
            lc, rc, fin = lab.control_local.receive(10), obj, None
        else:
            lc, rc, fin = obj
        if lc.id != rc.id:
            res.violation("channel-pair-id-mismatch", f"{label}: {lc.id} vs {rc.id}")
        ends.append((lc, rc, fin))
    if len({lc.id for lc, _, _ in ends}) != len(ends) or len({id(lc) for lc, _, _ in ends}) != len(ends):
        res.violation("distinct-channels-share-an-id", f"{label}: ids {[lc.id for lc, _, _ in ends]}")
    collectors = {}
    late = []
    senders = []
    sent = {}
    errs = []
    nsend = sum(len(d["pads"]) for ch in prog["chans"] for d in ch["dirs"].values())
    barrier = threading.Barrier(nsend + 1)

    def sender(endpoint, side, ci, t, pads):
        lab.sched.set_role(f"snd-{side}{ci}.{t}")
        try:
            barrier.wait(10)
            for s, size in enumerate(pads):
                if s % 3 == 2:
                    # (item layouts vary: the payload bytes come first in every third item)
                    endpoint.send((pad_bytes(side, ci, t, s, size), side, ci, t, s))
                else:
                    endpoint.send((side, ci, t, s, pad_bytes(side, ci, t, s, size)))
        except BaseException as e:  # noqa
            errs.append(f"{side}{ci}.{t}: {type(e).__name__}: {e}")

    for ci, ch in enumerate(prog["chans"]):
        lc, rc, fin = ends[ci]
        for d, dd in ch["dirs"].items():
            src, dst, side = (lc, rc, "L") if d == "l2r" else (rc, lc, "R")
            if dd.get("attach") is None:
                collectors[(ci, d)] = chanlab.Collector(lab, dst, dd["mode"], f"{ci}{d}", nthreads=dd["nrecv"])
            else:
                late.append(((ci, d), dst, dd))
            for t, pads in enumerate(dd["pads"]):
                sent[(ci, d, t)] = [(side, ci, t, s, len(pads_) if False else size) for s, size in enumerate(pads)]
                th = threading.Thread(target=sender, args=(src, side, ci, t, pads), daemon=True)
                senders.append(th)
                th.start()
    dcb = prog.get("dropped_cb")
    if dcb:
        import gc

        dgot: list = []
        a, b = lab.pair_newchannel_local() if dcb["receiver"] == "R" else tuple(reversed(lab.pair_newchannel_local()))
        # a = sending end, b = receiving end (on side dcb["receiver"])
        b.setcallback(dgot.append, endmarker="__DEND__")
        del b
        gc.collect()
        dthreads = []

        def dsender(t, pads):
            try:
                for s_, size in enumerate(pads):
                    a.send(("D", t, s_, pad_bytes("D", 0, t, s_, size)))
            except BaseException as e:  # noqa
                errs.append(f"dropped-cb sender {t}: {type(e).__name__}: {e}")

        for t, pads in enumerate(dcb["pads"]):
            th = threading.Thread(target=dsender, args=(t, pads), daemon=True)
            dthreads.append(th)
        res.count("callback_only_receivers")
    try:
        barrier.wait(10)
    except threading.BrokenBarrierError:
        res.violation("harness-barrier-broken", label)
        return False
    if dcb:
        for th in dthreads:
            th.start()
    t0 = time.monotonic()
    for key, dst, dd in sorted(late, key=lambda x: x[2]["attach"]):
        while time.monotonic() - t0 < dd["attach"]:
            time.sleep(0)
        collectors[key] = chanlab.Collector(lab, dst, dd["mode"], f"{key[0]}{key[1]}", nthreads=dd["nrecv"])
        res.count("late_attached_receivers")
    hung = False
    for th in senders:
        th.join(20)
        hung |= th.is_alive()
    if hung:
        res.violation("send-blocked-forever", f"{label}: a sender did not finish within 20 s")
        return False
    if errs:
        res.violation("send-raised", f"{label}: {errs[0]}")
    # wait for delivery (bounded), then close
    complete = True
    for (ci, d), col in collectors.items():
        want = sum(len(p) for p in prog["chans"][ci]["dirs"][d]["pads"])
        if not chanlab.pairs.wait_until(lambda: len(col.items) >= want, 10.0):
            complete = False
            res.violation(f"items-lost:{col.mode}", f"{label}: channel {ci} {d}: {len(col.items)}/{want} items after 10 s")
    for ci, (lc, rc, fin) in enumerate(ends):
        if fin is not None:
            fin.set()
        else:
            lc.close()
    for (ci, d), col in collectors.items():
        if col.mode == "callback":
            if not chanlab.pairs.wait_until(lambda: col.ends, 10.0):
                res.violation("callback-endmarker-missing", f"{label}: channel {ci} {d}")
        elif not col.join(10.0):
            res.violation(f"receiver-never-saw-close:{col.mode}", f"{label}: channel {ci} {d}")
    if dcb:
        for th in dthreads:
            th.join(20)
        a.close()
        chanlab.pairs.wait_until(lambda: "__DEND__" in dgot, 15.0)
    # ---- oracle
    frames_l, rest_l = lab.wire_frames("local")
    frames_r, rest_r = lab.wire_frames("remote")
    for (ci, d), col in collectors.items():
        dd = prog["chans"][ci]["dirs"][d]
        side = "L" if d == "l2r" else "R"
        lc, rc, fin = ends[ci]
        got = [(clk, r, norm_item(it)) for clk, r, it in sorted(col.items)]
        res.count("items_delivered", len(got))
        want_all = []
        for t, pads in enumerate(dd["pads"]):
            for s, size in enumerate(pads):
                want_all.append((side, ci, t, s, pad_bytes(side, ci, t, s, size)))
        gitems = [it for _, _, it in got]
        bad_type = [it for it in gitems if not (isinstance(it, tuple) and len(it) == 5)]
        if bad_type:
            res.violation(f"foreign-item-delivered:{col.mode}", f"{label}: channel {ci} {d}: {short(bad_type[0])}")
            continue
        leaked = [it for it in gitems if it[0] != side or it[1] != ci]
        if leaked:
            res.violation(f"item-leaked-into-other-channel:{col.mode}", f"{label}: channel {ci} {d} got {short(leaked[0][:4])}")
        if sorted(gitems) != sorted(want_all):
            keyset = {}
            for it in gitems:
                keyset[it[:4]] = keyset.get(it[:4], 0) + 1
            dups = [k for k, n in keyset.items() if n > 1]
            missing = [w[:4] for w in want_all if w[:4] not in keyset]
            corrupt = [it[:4] for it in gitems if it not in want_all and it[:4] in {w[:4] for w in want_all}]
            if dups:
                res.violation(f"item-duplicated:{col.mode}", f"{label}: channel {ci} {d}: {dups[:3]}")
            if missing and complete:
                res.violation(f"item-missing:{col.mode}", f"{label}: channel {ci} {d}: {missing[:3]}")
            if corrupt:
                res.violation(f"item-payload-corrupted:{col.mode}", f"{label}: channel {ci} {d}: {corrupt[:3]}")
        # order
        wire = [norm_item(codec.decode(p, versioned=False)) for code, cid, p, *_ in (frames_r if d == "l2r" else frames_l)
                if code == codec.MSG["CHANNEL_DATA"] and cid == lc.id]
        if dd["mode"] != "compete":
            if gitems != wire[:len(gitems)] and sorted(gitems) == sorted(want_all):
                j = next((k for k, (a, b) in enumerate(zip(gitems, wire)) if a != b), -1)
                res.violation(f"delivery-order-differs-from-wire-order:{col.mode}",
                              f"{label}: channel {ci} {d}: position {j}: delivered {short(gitems[j][:4]) if j >= 0 else '?'} wire {short(wire[j][:4]) if j >= 0 else '?'}")
        for t in range(len(dd["pads"])):
            for r in range(dd["nrecv"]):
                seqs = [it[3] for _, rr, it in got if it[2] == t and rr == r and it[0] == side and it[1] == ci]
                if seqs != sorted(seqs):
                    res.violation(f"per-sender-order-broken:{col.mode}", f"{label}: channel {ci} {d} sender {t} receiver {r}: {seqs[:20]}")
            wseq = [it[3] for it in wire if it[2] == t]
            if wseq != sorted(wseq):
                res.violation("wire-order-not-send-order", f"{label}: channel {ci} {d} sender {t}")
        if col.mode == "callback":
            if [e for e in col.ends if e[1] == "endmarker"] and len(col.ends) != 1:
                res.violation("callback-endmarker-count", f"{label}: {col.ends}")
        else:
            badend = [e for e in col.ends if e[1] not in ("EOFError", "StopIteration")]
            if badend:
                res.violation(f"receiver-ended-with:{badend[0][1].split(':')[0]}", f"{label}: channel {ci} {d}: {badend[0]}")
    if dcb:
        ditems = [x for x in dgot if x != "__DEND__"]
        dwant = [("D", t, s_, pad_bytes("D", 0, t, s_, size)) for t, pads in enumerate(dcb["pads"]) for s_, size in enumerate(pads)]
        res.count("items_delivered", len(ditems))
        if sorted(ditems) != sorted(dwant):
            res.violation("items-lost:callback_only_receiver" if len(ditems) < len(dwant) else "items-wrong:callback_only_receiver",
                          f"{label}: receiver side {dcb['receiver']} kept only its callback: got {len(ditems)} of {len(dwant)} items")
        else:
            for t in range(len(dcb["pads"])):
                seqs = [it[2] for it in ditems if it[1] == t]
                if seqs != sorted(seqs):
                    res.violation("per-sender-order-broken:callback_only_receiver", f"{label}: sender {t}: {seqs[:20]}")
        if dgot.count("__DEND__") != 1 or dgot[-1:] != ["__DEND__"]:
            res.violation("callback-endmarker-count:callback_only_receiver", f"{label}: endmarker x{dgot.count('__DEND__')}, last {short(dgot[-1:])}")
    if rest_l or rest_r:
        res.violation("wire-stream-has-partial-frame-at-quiescence", label)
    return True


def run_inproc(spec):
    from execnet import gateway_base as gb
    from vlib import chanlab
    from vlib import imodel

    res = Result()
    rng = core.rng_for("C02", spec["tier"], spec["seed"], spec["shard"])
    pre = imodel.Preempt(core.REPO_SRC)
    pre.install()
    try:
        if spec["kind"] == "random":
            for i in range(spec["runs"]):
                if res.enough():
                    break
                prog = gen_program(rng)
                sseed = rng.getrandbits(32)
                lab = chanlab.Lab(spec["transport"], sseed)
                mode = spec["mode"]
                if mode == "noise":
                    pre.set_noise(sseed, rng.choice((0.01, 0.05)))
                elif mode == "pct":
                    pre.set_pct(sseed, 30000, rng.choice((1, 2, 3)), stall=0.02)
                label = f"mode={mode} transport={spec['transport']} sched_seed={sseed} prog={short(prog, 500)}"
                try:
                    run_program(res, lab, prog, label)
                except BaseException as e:
                    res.violation(f"program-raised:{type(e).__name__}", f"{label}: {e}")
                pre.off()
                res.sig(lab.sched.signature()[:3000])
                if not lab.close():
                    res.violation("gateway-pair-did-not-shut-down", label)
                res.count("runs")
                res.case(core.h64(mode, repr(prog), sseed))
                if i < 2:
                    res.sample({"program": short(prog, 400), "mode": mode})
        else:
            lines = imodel.function_lines(gb.Channel, gb.ChannelFactory, gb.BaseGateway._thread_receiver, gb.BaseGateway._send,
                                          gb.Message.to_io, gb.Message.from_io, gb.Message._channel_data, gb.Popen2IO.read, gb.Popen2IO.write)
            res.info["sweep_lines"] = len(lines)
            targets = [(ln, k) for ln in lines for k in spec["ks"]]
            targets = [t for i, t in enumerate(targets) if i % spec["parts"] == spec["part"]]
            for (fn, ln), k in targets:
                if res.enough():
                    break
                prog = gen_program(rng, small=True)
                sseed = rng.getrandbits(32)
                lab = chanlab.Lab("pipe", sseed, p_yield=0.1, p_sleep=0.0)
                pre.restart()
                pre.set_sweep(fn, ln, k, stall=0.03)
                label = f"sweep line={ln} k={k} sched_seed={sseed} prog={short(prog, 400)}"
                try:
                    run_program(res, lab, prog, label)
                except BaseException as e:
                    res.violation(f"program-raised:{type(e).__name__}", f"{label}: {e}")
                pre.off()
                if pre.fired:
                    res.count("sweep_fired")
                res.sig(lab.sched.signature()[:3000])
                if not lab.close():
                    res.violation("gateway-pair-did-not-shut-down", label)
                res.count("runs")
                res.case(core.h64("sweep", ln, k, repr(prog)))
            res.sample({"sweep_targets": len(targets), "lines": len(lines)})
    finally:
        pre.uninstall()
    return res


# ---------------------------------------------------------------------------

REAL_BODY = r"""
import threading
spec = channel.receive()
nchan, nthreads, nitems, mode = spec
subs = [channel.receive() for _ in range(nchan)]
results = {}
def pump(ci, c):
    got = []
    if mode == "callback":
        done = threading.Event()
        def cb(x):
            if x is None: done.set()
            else: got.append(x)
        c.setcallback(cb, endmarker=None)
        done.wait(60)
    else:
        for x in c:
            got.append(x)
    results[ci] = got
def send(ci, c, t):
    for s in range(nitems):
        c.send(("R", ci, t, s, b"y" * (120000 if s % 5 == 2 else (s * 37) % 3000)))
ths = []
backs = [channel.gateway.newchannel() for _ in range(nchan)]
channel.send(backs)
for ci, c in enumerate(subs):
    ths.append(threading.Thread(target=pump, args=(ci, c)))
    for t in range(nthreads):
        ths.append(threading.Thread(target=send, args=(ci, backs[ci], t)))
for t in ths: t.start()
for t in ths: t.join(120)
for b in backs: b.close()
channel.send([results.get(ci) for ci in range(nchan)])
"""


def run_real(spec):
    import execnet

    res = Result()
    rng = core.rng_for("C02r", spec["tier"], spec["seed"], spec["spec"])
    for run in range(spec["runs"]):
        group = execnet.Group()
        noise = core.worker_noise(rng.getrandbits(30), p=0.01, max_sleep_ms=3.0)
        if run % 2:
            noise.__enter__()
            res.count("real_runs_with_worker_side_noise")
        try:
            if spec["spec"] == "popen":
                gw = group.makegateway("popen")
            elif spec["spec"] == "socket":
                group.makegateway("popen//id=m")
                gw = group.makegateway("socket//installvia=m")
            else:
                group.makegateway("popen//id=m")
                gw = group.makegateway("popen//via=m")
            nchan, nthreads, nitems = rng.choice((1, 3)), rng.choice((1, 2, 3)), rng.choice((5, 50, 150))
            mode = rng.choice(("iter", "callback"))
            ch = gw.remote_exec(REAL_BODY)
            ch.send((nchan, nthreads, nitems, mode))
            subs = [gw.newchannel() for _ in range(nchan)]
            for s in subs:
                ch.send(s)
            backs = ch.receive(30)
            got_local = {ci: [] for ci in range(nchan)}

            def pump(ci):
                for x in backs[ci]:
                    got_local[ci].append(x)

            def send(ci, t):
                for s in range(nitems):
                    subs[ci].send(("L", ci, t, s, b"x" * (150000 if s % 7 == 3 else (s * 41) % 3000)))

            ths = [threading.Thread(target=pump, args=(ci,), daemon=True) for ci in range(nchan)]
            sth = [threading.Thread(target=send, args=(ci, t), daemon=True) for ci in range(nchan) for t in range(nthreads)]
            for t in ths + sth:
                t.start()
            for t in sth:
                t.join(60)
            for s in subs:
                s.close()
            for t in ths:
                t.join(60)
            remote_got = ch.receive(60)
            ch.waitclose(30)
            label = f"real {spec['spec']} nchan={nchan} nthreads={nthreads} nitems={nitems} mode={mode}"
            for ci in range(nchan):
                for side, got in (("L", remote_got[ci]), ("R", got_local[ci])):
                    res.count("items_delivered", len(got or ()))
                    pad = ((lambda s: b"x" * (150000 if s % 7 == 3 else (s * 41) % 3000)) if side == "L"
                           else (lambda s: b"y" * (120000 if s % 5 == 2 else (s * 37) % 3000)))
                    want = sorted((side, ci, t, s, pad(s)) for t in range(nthreads) for s in range(nitems))
                    if got is None or sorted(map(tuple, got)) != want:
                        res.violation(f"real-items-differ:{spec['spec']}", f"{label}: channel {ci} side {side}: {len(got or ())}/{len(want)}")
                        continue
                    for t in range(nthreads):
                        seqs = [it[3] for it in got if it[2] == t]
                        if seqs != sorted(seqs):
                            res.violation(f"real-per-sender-order-broken:{spec['spec']}", label)
            # last words: the worker sends a batch of items and is gone at once, while this side's receiver thread is held up
            # in a callback of another channel - every item written before the exit is still delivered, then the end
            hold = gw.newchannel()
            hold.setcallback(lambda item: time.sleep(0.8))
            # (small last words fit into the connection's buffers and are all written when the worker goes; big ones are still
            # being written while this side starts to read again)
            lw_size = 7000 if run % 4 >= 2 or spec["spec"] == "socket" else 10
            lw = gw.remote_exec("import os\nside = channel.receive()\nside.send('hold the receiver')\n"
                                "for i in range(200):\n    channel.send(('last words', i, b'w' * (%d if i %% 2 else 10)))\n" % lw_size + ("os._exit(0)\n" if run % 2 else ""))
            lw.send(hold)
            if run % 2 == 0:
                time.sleep(0.1)
                gw.exit()
            words = []
            try:
                while True:
                    words.append(lw.receive(20))
            except EOFError:
                pass
            except BaseException as e:  # noqa
                words.append(f"{type(e).__name__}: {e}")
            res.count("last_words_runs")
            if words != [("last words", i, b"w" * (lw_size if i % 2 else 10)) for i in range(200)]:
                res.violation(f"items-written-before-the-peer-was-gone-lost:{spec['spec']}",
                              f"{label}: {len(words)} of 200 items arrived ({'worker called os._exit' if run % 2 else 'gateway told to exit'} while the receiver thread was busy); tail {short([w[:2] if isinstance(w, tuple) else w for w in words[-2:]], 120)}")
            res.count("runs")
            res.count("real_runs")
            res.case(core.h64("real", spec["spec"], run, nchan, nthreads, nitems, mode))
        except BaseException as e:
            res.violation(f"real-run-raised:{spec['spec']}:{type(e).__name__}", str(e)[-300:])
        finally:
            if run % 2:
                noise.__exit__()
            group.terminate(3.0)
    res.sample({"real": spec["spec"], "runs": spec["runs"]})
    return res
