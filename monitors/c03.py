"""C03 - close is ordered after data and observed consistently by both sides."""

from __future__ import annotations

import gc
import threading
import time

from vlib import core
from vlib.core import Result
from vlib.core import short

ID = "C03"
LEVEL = "exploration"
RULE = ("generated send/close histories: a side sends k in 0..50 unique items and closes by close() / close(error) / end of the remote_exec "
        "body / dropping the last reference (with and without a callback registered); the peer has 1-3 receive threads and 0-2 waitclose "
        "callers attached before or after the close; either side may be the closing one; run on in-process gateway pairs (pipe, TCP) under "
        "sync-point perturbation, line noise, PCT stalls and a single-pre-emption sweep over close/__del__/_local_close/_no_longer_opened/"
        "receive/waitclose/executetask. distinct = distinct (history, schedule) cases")
ASSUMPTIONS = [
    "a receive/waitclose that has not returned 10 s after the close was issued counts as blocked forever",
    "for a channel dropped *with* a callback registered the peer enters the documented send-only state: only the receive-side clauses are asserted there",
]
MINIMUM = {"histories": 400, "signatures": 50, "sweep_fired": 100, "receivers_checked": 800}
SHARD_TIMEOUT = {"quick": 120, "thorough": 2400}

HOWS = ["close", "close_error", "end_of_exec", "end_of_exec_eoferror", "drop", "drop_with_callback"]


def shards(tier, seed):
    out = []
    n = 10 if tier == "quick" else 20
    for i in range(n):
        out.append({"kind": "random", "mode": ("sync", "noise", "pct")[i % 3], "runs": 90 if tier == "quick" else 8000,
                    "transport": ("pipe", "tcp")[i % 2]})
    nsw = 6 if tier == "quick" else 12
    for i in range(nsw):
        out.append({"kind": "sweep", "part": i, "parts": nsw, "ks": [1, 2] if tier == "quick" else [1, 2, 3, 4]})
    return out


def gen_history(rng):
    how = rng.choice(HOWS)
    side = "remote" if how.startswith("end_of_exec") else rng.choice(("local", "remote"))
    return {
        "how": how, "closer": side, "k": rng.choice((0, 0, 1, 2, 5, 20, 50)),
        "pad": rng.choice((0, 0, 10, 70000)),
        "receivers": [rng.choice(("before", "before", "after")) for _ in range(rng.choice((1, 1, 2, 3)))],
        "waitclosers": [rng.choice(("before", "after")) for _ in range(rng.choice((0, 1, 2)))],
        "make": rng.choice(("newchannel_local", "newchannel_remote")),
        # the closing side itself receives by callback (its own close must still complete: waitclose there returns)
        "closer_has_callback": how in ("close", "close_error", "end_of_exec") and rng.random() < 0.3,
        # the conversation goes both ways: the closing side has itself received something on this channel (and nothing
        # else arrives on its gateway afterwards) before it sends its items and closes / drops
        "closer_received_first": rng.random() < 0.35,
        # an attempt to close with an error value that cannot be sent (refused with an exception) comes first: it must
        # leave the channel as it was, the real close that follows works as always
        "failed_error_close_first": how == "close" and rng.random() < 0.3,
        # "by dropping its last reference": the drop itself ends the conversation, without waiting for a run of the cyclic
        # garbage collector - also when channel files had been made from the channel
        "drop_without_gc": how.startswith("drop") and rng.random() < 0.5,
        "files_made_before_drop": rng.choice(((), ("w",), ("r",), ("w", "r"))) if how == "drop" else (),
    }


def run_history(res: Result, lab, h, label, hid):
    if not h.get("drop_without_gc"):
        return _run_history(res, lab, h, label, hid)
    gc.collect()
    gc.disable()
    res.count("drops_without_a_collector_run")
    try:
        return _run_history(res, lab, h, label, hid)
    finally:
        gc.enable()


def _run_history(res: Result, lab, h, label, hid):
    from execnet.gateway_base import RemoteError

    how = h["how"]
    fin = None
    if how == "end_of_exec_eoferror":
        # the body ends with an uncaught EOFError (e.g. it read past the end of some other channel or file)
        def _raise_eof(channel):
            raise EOFError("body ran into the end of something")

        lc, rc, fin = lab.pair_remote_exec(at_end=_raise_eof)
    elif how == "end_of_exec":
        lc, rc, fin = lab.pair_remote_exec()
    elif h["make"] == "newchannel_local":
        lc, rc = lab.pair_newchannel_local()
    else:
        lc, rc = lab.pair_newchannel_remote()
    closer_holder = [rc if h["closer"] == "remote" else lc]
    peer = lc if h["closer"] == "remote" else rc
    del lc, rc
    k = h["k"]
    pad = b"p" * h["pad"]
    recs = []  # per receiver: dict(items, terminal, after, isclosed, send)
    waits = []
    close_issued = threading.Event()
    sendonly = how == "drop_with_callback"

    def receiver(ix):
        lab.sched.set_role(f"rcv{ix}")
        r = {"items": [], "terminal": None, "repeats": [], "isclosed": None, "send": None}
        recs.append(r)
        try:
            while True:
                r["items"].append(peer.receive(6))
        except EOFError:
            r["terminal"] = "EOFError"
        except RemoteError as e:
            r["terminal"] = "RemoteError"
            r["text"] = str(e)
        except BaseException as e:  # noqa
            r["terminal"] = type(e).__name__
            return
        # the peer has now observed the close
        r["isclosed"] = peer.isclosed()
        try:
            peer.send(("probe", hid))
            r["send"] = "accepted"
        except OSError:
            r["send"] = "OSError"
        except BaseException as e:  # noqa
            r["send"] = type(e).__name__
        for _ in range(3):
            try:
                x = peer.receive(6)
                r["repeats"].append(("item", x))
            except EOFError:
                r["repeats"].append("EOFError")
            except RemoteError:
                r["repeats"].append("RemoteError")
            except BaseException as e:  # noqa
                r["repeats"].append(type(e).__name__)

    def waitcloser(ix):
        lab.sched.set_role(f"wc{ix}")
        w = {"result": None, "isclosed": None, "send": None}
        waits.append(w)
        try:
            peer.waitclose(6)
            w["result"] = "returned"
        except RemoteError:
            w["result"] = "RemoteError"
        except BaseException as e:  # noqa
            w["result"] = type(e).__name__
            return
        w["isclosed"] = peer.isclosed()
        try:
            peer.send(("probe-w", hid))
            w["send"] = "accepted"
        except OSError:
            w["send"] = "OSError"
        except BaseException as e:  # noqa
            w["send"] = type(e).__name__

    threads = []
    late = []
    for i, when in enumerate(h["receivers"]):
        t = threading.Thread(target=receiver, args=(i,), daemon=True)
        (threads if when == "before" else late).append(t)
    for i, when in enumerate(h["waitclosers"]):
        t = threading.Thread(target=waitcloser, args=(i,), daemon=True)
        (threads if when == "before" else late).append(t)
    for t in threads:
        t.start()

    closer_log = {}
    hello_err: list = []

    def closing_side():
        lab.sched.set_role("closer")
        ch = closer_holder.pop()
        hello: list = []
        if how == "drop_with_callback" or h.get("closer_has_callback"):
            ch.setcallback(hello.append)
        if h.get("closer_received_first"):
            try:
                peer.send(("hello", hid))
                if ch._items is not None:
                    hello.append(ch.receive(6))
                else:
                    t_end = time.monotonic() + 6
                    while not hello and time.monotonic() < t_end:
                        time.sleep(0.001)
            except BaseException as e:  # noqa
                hello_err.append(f"{type(e).__name__}: {e}")
            if hello[:1] != [("hello", hid)]:
                hello_err.append(f"got {hello!r}")
        for mode in h.get("files_made_before_drop", ()):
            f_ = ch.makefile(mode)
            del f_
        for s in range(k):
            ch.send((hid, s, pad))
        if how == "close":
            if h.get("failed_error_close_first"):
                bad = ("undecodable name \udcff", ValueError("an exception object"))[hid % 2]
                try:
                    ch.close(bad)
                    hello_err.append(f"close({bad!r}) was accepted")
                except BaseException:  # noqa
                    pass
            ch.close()
        elif how == "close_error":
            ch.close(f"deliberate error {hid}")
        elif how in ("end_of_exec", "end_of_exec_eoferror"):
            fin.set()
            # the body ends asynchronously and the worker closes the channel itself: waitclose() returning is
            # the API-level sign that this close has completed on the closing side
            try:
                ch.waitclose(10)
            except BaseException as e:  # noqa
                closer_log["waitclose_after_exec"] = type(e).__name__
        if how in ("close", "close_error", "end_of_exec", "end_of_exec_eoferror"):
            closer_log["isclosed"] = ch.isclosed()
            try:
                ch.send("late")
                closer_log["send"] = "accepted"
            except OSError:
                closer_log["send"] = "OSError"
            except BaseException as e:  # noqa
                closer_log["send"] = type(e).__name__
            try:
                ch.waitclose(0)
                closer_log["waitclose0"] = "returned"
            except BaseException as e:  # noqa
                closer_log["waitclose0"] = type(e).__name__
            try:
                ch.close()
                closer_log["second_close"] = "silent"
            except BaseException as e:  # noqa
                closer_log["second_close"] = type(e).__name__
        del ch, hello
        if not h.get("drop_without_gc"):
            gc.collect()
        close_issued.set()

    ct = threading.Thread(target=closing_side, daemon=True)
    ct.start()
    ct.join(15)
    if ct.is_alive():
        res.violation(f"closing-side-blocked:{how}", label)
        return
    for t in late:
        t.start()
    blocked = False
    t0 = time.monotonic()
    for t in threads + late:
        t.join(max(0.05, 8 - (time.monotonic() - t0)))
        blocked |= t.is_alive()
    res.count("histories")
    res.count("receivers_checked", len(recs))
    m = lambda name: f"{name}:{how}"
    if blocked:
        res.violation(m("receive-or-waitclose-blocked-after-close"), f"{label}: recs={short(recs, 300)} waits={waits}")
        return
    # ---- oracle
    allitems = []
    for r in recs:
        seqs = [it[1] for it in r["items"] if isinstance(it, tuple) and len(it) == 3 and it[0] == hid]
        if len(seqs) != len(r["items"]):
            res.violation(m("foreign-item-received"), f"{label}: {short(r['items'][:3])}")
        if seqs != sorted(seqs):
            res.violation(m("receiver-subsequence-not-increasing"), f"{label}: {seqs[:20]}")
        allitems += seqs
        for rep in r["repeats"]:
            if isinstance(rep, tuple):
                allitems.append(rep[1][1] if isinstance(rep[1], tuple) and len(rep[1]) == 3 else -1)
    if sorted(allitems) != list(range(k)):
        missing = sorted(set(range(k)) - set(allitems))
        dup = sorted({s for s in allitems if allitems.count(s) > 1})
        res.violation(m("items-before-close-not-all-receivable") if missing else m("item-duplicated-or-foreign"),
                      f"{label}: missing={missing[:5]} dup={dup[:5]} got {len(allitems)}/{k}")
    nremote = sum(1 for r in recs if r["terminal"] == "RemoteError") + sum(r["repeats"].count("RemoteError") for r in recs) \
        + sum(1 for w in waits if w["result"] == "RemoteError")
    want_remote = 1 if how == "close_error" else 0
    if nremote != want_remote:
        res.violation(m("remoteerror-count"), f"{label}: {nremote} RemoteError deliveries, want {want_remote}; recs={short([(r['terminal'], r['repeats']) for r in recs])} waits={[w['result'] for w in waits]}")
    for r in recs:
        if r["terminal"] not in ("EOFError", "RemoteError"):
            res.violation(m(f"receive-ended-with-{r['terminal']}"), label)
            continue
        if r["terminal"] == "RemoteError" and f"deliberate error {hid}" not in r.get("text", ""):
            res.violation(m("remoteerror-text-wrong"), f"{label}: {r.get('text')!r}")
        bad = [x for x in r["repeats"] if x not in ("EOFError", "RemoteError") and not isinstance(x, tuple)]
        if bad or len(r["repeats"]) != 3:
            res.violation(m("later-receive-not-eoferror"), f"{label}: repeats={r['repeats']}")
        if not sendonly:
            if r["isclosed"] is not True:
                res.violation(m("peer-not-closed-after-observing-eof"), f"{label}: isclosed()={r['isclosed']} right after {r['terminal']}")
            if r["send"] != "OSError":
                res.violation(m("peer-send-after-observing-eof"), f"{label}: send -> {r['send']}")
    for w in waits:
        if w["result"] not in ("returned", "RemoteError"):
            res.violation(m(f"waitclose-ended-with-{w['result']}"), label)
            continue
        if not sendonly:
            if w["isclosed"] is not True:
                res.violation(m("peer-not-closed-after-waitclose"), f"{label}: isclosed()={w['isclosed']}")
            if w["send"] != "OSError":
                res.violation(m("peer-send-after-waitclose"), f"{label}: send -> {w['send']}")
    if hello_err:
        res.violation(m("closing-side-did-not-get-the-peers-item"), f"{label}: {hello_err[0]}")
    if closer_log:
        if closer_log.get("isclosed") is not True or closer_log.get("send") != "OSError" or \
                closer_log.get("waitclose0") != "returned" or closer_log.get("second_close") != "silent":
            res.violation(m("closing-side-state-wrong"), f"{label}: {closer_log}")


def run_shard(spec):
    from execnet import gateway_base as gb
    from vlib import chanlab
    from vlib import imodel

    res = Result()
    rng = core.rng_for("C03", spec["tier"], spec["seed"], spec["shard"])
    pre = imodel.Preempt(core.REPO_SRC)
    pre.install()
    hid = 0
    try:
        if spec["kind"] == "random":
            lab = None
            for i in range(spec["runs"]):
                if lab is None or i % 15 == 0:
                    if lab is not None:
                        res.sig(lab.sched.signature()[:4000])
                        if not lab.close():
                            res.violation("gateway-pair-did-not-shut-down", "after histories")
                    sseed = rng.getrandbits(32)
                    lab = chanlab.Lab(spec["transport"], sseed)
                if res.enough():
                    break
                h = gen_history(rng)
                hid += 1
                mode = spec["mode"]
                if mode == "noise":
                    pre.set_noise(rng.getrandbits(32), rng.choice((0.02, 0.1)))
                elif mode == "pct":
                    pre.set_pct(rng.getrandbits(32), 3000, rng.choice((1, 2, 3)), stall=0.02)
                label = f"mode={mode} transport={spec['transport']} sched_seed={sseed} history={h}"
                try:
                    run_history(res, lab, h, label, hid)
                except BaseException as e:
                    res.violation(f"history-raised:{type(e).__name__}", f"{label}: {e}")
                    lab.close()
                    lab = None
                pre.off()
                res.case(core.h64(mode, repr(h), sseed, i))
                if i < 2:
                    res.sample(h)
            if lab is not None:
                res.sig(lab.sched.signature()[:4000])
                lab.close()
        else:
            lines = imodel.function_lines(gb.Channel.close, gb.Channel.__del__, gb.Channel.receive, gb.Channel.waitclose, gb.Channel.send,
                                          gb.Channel.setcallback, gb.ChannelFactory._local_close, gb.ChannelFactory._no_longer_opened,
                                          gb.ChannelFactory._local_receive, gb.WorkerGateway.executetask, gb.Message._channel_close,
                                          gb.Message._channel_close_error, gb.Message._channel_last_message, gb.BaseGateway._thread_receiver)
            res.info["sweep_lines"] = len(lines)
            targets = [(ln, k, how) for ln in lines for k in spec["ks"] for how in HOWS]
            targets = [t for i, t in enumerate(targets) if i % spec["parts"] == spec["part"]]
            lab = None
            for n, ((fn, ln), k, how) in enumerate(targets):
                if lab is None or n % 10 == 0:
                    if lab is not None:
                        res.sig(lab.sched.signature()[:4000])
                        lab.close()
                    sseed = rng.getrandbits(32)
                    lab = chanlab.Lab("pipe", sseed, p_yield=0.1, p_sleep=0.0)
                if res.enough():
                    break
                h = gen_history(rng)
                h["how"] = how
                h["closer_has_callback"] = how in ("close", "close_error", "end_of_exec") and rng.random() < 0.3
                if how.startswith("end_of_exec"):
                    h["closer"] = "remote"
                h["k"] = rng.choice((0, 1, 3))
                h["pad"] = 0
                hid += 1
                pre.restart()
                pre.set_sweep(fn, ln, k, stall=0.03)
                label = f"sweep line={ln} k={k} sched_seed={sseed} history={h}"
                try:
                    run_history(res, lab, h, label, hid)
                except BaseException as e:
                    res.violation(f"history-raised:{type(e).__name__}", f"{label}: {e}")
                    lab.close()
                    lab = None
                pre.off()
                if pre.fired:
                    res.count("sweep_fired")
                res.case(core.h64("sweep", ln, k, repr(h)))
            if lab is not None:
                res.sig(lab.sched.signature()[:4000])
                lab.close()
            res.sample({"sweep_targets": len(targets), "lines": len(lines)})
    finally:
        pre.uninstall()
    return res
