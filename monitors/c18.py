"""C18 - channel ids never collide, channels travel over channels intact, no growth."""

from __future__ import annotations

import gc
import re
import sys
import threading
import time

from vlib import core
from vlib.core import Result
from vlib.core import short

ID = "C18"
LEVEL = "exploration"
RULE = ("(a) 2-8 threads per side create channels concurrently (newchannel, remote_exec, worker-side newchannel) under sync-point "
        "perturbation, line noise, PCT and a single-pre-emption sweep over ChannelFactory.new / Channel.__init__: ids distinct across both "
        "sides, every channel talks only to its own peer (token check); (b) channels sent over channels bare and nested in list/tuple/dict to "
        "depth 3: same id, ping-pong both ways; (c) thousands of open-transfer-close cycles of mixed shapes (close, end of exec, drop, error, "
        "callback, callback+drop, remote_status, nested transfer): channel tables of both sides back at their baseline at quiescence. "
        "In-process pairs and real popen/socket/via workers. distinct = distinct runs/cycle shapes x schedules")
ASSUMPTIONS = ["quiescence is polled with gc.collect() on both sides for up to 5 s (un-registration is asynchronous w.r.t. the peer)"]
MINIMUM = {"ids_allocated": 2000, "cycles": 1500, "transfers": 150, "sweep_fired": 20}
SHARD_TIMEOUT = {"quick": 120, "thorough": 2400}

SHAPES = ["close_local", "close_remote", "end_of_exec", "drop_local", "drop_remote", "error", "callback", "callback_drop",
          "remote_status", "nested_transfer", "exec_error", "reply_channel_both_dropped", "callback_then_local_close",
          "exec_sets_callback_on_own_channel", "both_callbacks_peer_drops_first", "callback_channel_sent_back", "endmarker_callback_raises", "error_close_to_callback_only_listener",
          "item_callback_raises_on_callback_only_listener"]


def shards(tier, seed):
    out = []
    for i in range(6 if tier == "quick" else 12):
        out.append({"kind": "ids", "mode": ("sync", "noise", "pct")[i % 3], "runs": 20 if tier == "quick" else 2000})
    out.append({"kind": "ids_sweep", "ks": [1, 2, 3] if tier == "quick" else [1, 2, 3, 5, 8]})
    for i in range(1 if tier == "quick" else 4):
        out.append({"kind": "late_callback", "reps": 2 if tier == "quick" else 60})
    for i in range(3 if tier == "quick" else 6):
        out.append({"kind": "transfer", "runs": 100 if tier == "quick" else 8000})
    for i in range(5 if tier == "quick" else 10):
        out.append({"kind": "cycles", "n": 400 if tier == "quick" else 30000, "transport": ("pipe", "tcp")[i % 2]})
    for sp in ("popen", "socket", "via"):
        out.append({"kind": "real", "spec": sp, "n": 150 if tier == "quick" else 15000})
    return out


def run_shard(spec):
    return {"ids": run_ids, "ids_sweep": run_ids, "transfer": run_transfer, "cycles": run_cycles, "real": run_real,
            "late_callback": run_late_callback}[spec["kind"]](spec)


# ---------------------------------------------------------------------------
# (a) concurrent creation


def _kw_probe(channel, x):
    channel.send(x)


def one_ids_run(res, lab, rng, label):
    T = rng.choice((2, 3, 4, 8))
    per = rng.choice((3, 6, 12))
    made_local: list = []
    made_remote: list = []
    errs = []
    def local(t):
        lab.sched.set_role(f"cl{t}")
        try:
            start.wait(10)
            for i in range(per):
                if (t + i) % 3 == 0:
                    ch = lab.gw.remote_exec("channel.send(channel.receive())")
                    made_local.append(("exec", ch))
                else:
                    made_local.append(("new", lab.gw.newchannel()))
        except BaseException as e:  # noqa
            errs.append(repr(e))

    def remote(t):
        lab.sched.set_role(f"cr{t}")
        try:
            start.wait(10)
            for i in range(per):
                made_remote.append(("new", lab.remote_gateway.newchannel()))
        except BaseException as e:  # noqa
            errs.append(repr(e))

    # ... while something polls the gateway's status (which borrows an id for its answer)
    polling = threading.Event()
    polls = [0]

    def poller():
        lab.sched.set_role("poller")
        try:
            start.wait(10)
        except threading.BrokenBarrierError:
            return
        while not polling.is_set():
            try:
                st = lab.gw.remote_status()
                assert st.numchannels >= 0
                polls[0] += 1
            except BaseException as e:  # noqa
                errs.append("remote_status: " + repr(e))
                return

    # ... and while some requests fail before anything is sent (an argument that cannot be serialised)
    refused = [0]

    def failing_requests():
        lab.sched.set_role("failing")
        from execnet.gateway_base import DumpError

        try:
            start.wait(10)
        except threading.BrokenBarrierError:
            return
        while not polling.is_set():
            try:
                lab.gw.remote_exec(_kw_probe, x=object())
                errs.append("remote_exec with an unserialisable argument was accepted")
                return
            except DumpError:
                refused[0] += 1
            except BaseException as e:  # noqa
                errs.append("remote_exec with an unserialisable argument: " + repr(e))
                return
            time.sleep(0)

    start = threading.Barrier(2 * T + 2)
    ft = threading.Thread(target=failing_requests, daemon=True)
    ft.start()
    ths = [threading.Thread(target=local, args=(t,), daemon=True) for t in range(T)]
    ths += [threading.Thread(target=remote, args=(t,), daemon=True) for t in range(T)]
    pt = threading.Thread(target=poller, daemon=True)
    pt.start()
    for t in ths:
        t.start()
    for t in ths:
        t.join(20)
    polling.set()
    pt.join(20)
    ft.join(20)
    res.count("status_polls_during_creation", polls[0])
    res.count("requests_refused_locally_during_creation", refused[0])
    if any(t.is_alive() for t in ths) or pt.is_alive():
        res.violation("channel-creation-hung", label)
        return
    if errs:
        res.violation("channel-creation-raised", f"{label}: {errs[0]}")
    lids = [c.id for _, c in made_local]
    rids = [c.id for _, c in made_remote]
    res.count("ids_allocated", len(lids) + len(rids))
    allids = lids + rids
    if len(set(allids)) != len(allids):
        dup = sorted({i for i in allids if allids.count(i) > 1})
        res.violation("duplicate-channel-id", f"{label}: {dup[:6]} (local {len(lids)}, remote {len(rids)} ids)")
    if any(i % 2 == 0 for i in lids) or any(i % 2 == 1 for i in rids):
        res.violation("id-parity-mixed", f"{label}: local {lids[:5]} remote {rids[:5]}")
    # every exec channel converses with its own body only
    for n, (kind, ch) in enumerate(made_local):
        if kind == "exec":
            try:
                ch.send(("token", ch.id, n))
                back = ch.receive(10)
                if back != ("token", ch.id, n):
                    res.violation("channel-cross-connected", f"{label}: channel {ch.id} got {back!r}")
                ch.waitclose(10)
            except BaseException as e:
                res.violation(f"exec-channel-conversation-failed:{type(e).__name__}", f"{label}: {e}")
        else:
            ch.close()
    for kind, ch in made_remote:
        ch.close()


def run_ids(spec):
    from execnet import gateway_base as gb
    from vlib import chanlab
    from vlib import imodel

    res = Result()
    rng = core.rng_for("C18a", spec["tier"], spec["seed"], spec["shard"])
    pre = imodel.Preempt(core.REPO_SRC)
    pre.install()
    try:
        if spec["kind"] == "ids":
            todo = [(None, None)] * spec["runs"]
        else:
            from execnet import gateway as gwmod

            lines = imodel.function_lines(gb.ChannelFactory.new, gb.Channel.__init__, gb.BaseGateway.newchannel, gwmod.Gateway.remote_status)
            res.info["sweep_lines"] = len(lines)
            todo = [(ln, k) for ln in lines for k in spec["ks"]]
        for i, (ln, k) in enumerate(todo):
            if res.enough():
                break
            lab = chanlab.Lab(("pipe", "tcp")[i % 2], rng.getrandbits(32))
            if ln is None:
                mode = spec["mode"]
                if mode == "noise":
                    pre.set_noise(rng.getrandbits(32), rng.choice((0.02, 0.1, 0.3)))
                elif mode == "pct":
                    pre.set_pct(rng.getrandbits(32), 4000, rng.choice((1, 2, 3)), stall=0.01)
                label = f"mode={mode} run={i}"
            else:
                pre.restart()
                pre.set_sweep(ln[0], ln[1], k, stall=0.02)
                label = f"sweep line={ln[1]} k={k}"
            try:
                one_ids_run(res, lab, rng, label)
            except BaseException as e:
                res.violation(f"ids-run-raised:{type(e).__name__}", f"{label}: {e}")
            pre.off()
            if ln is not None and pre.fired:
                res.count("sweep_fired")
            res.sig(lab.sched.signature()[:3000])
            lab.close()
            res.case(core.h64("ids", spec["shard"], i, ln, k))
        res.sample({"kind": spec["kind"], "runs": len(todo)})
    finally:
        pre.uninstall()
    return res


def run_late_callback(spec):
    """setcallback() on one side while the other side ends the conversation (close, close with error, drop): wherever the
    two meet, the callback gets its endmarker exactly once and no entry is left behind"""
    import io

    from execnet import gateway_base as gb
    from vlib import chanlab
    from vlib import imodel
    from vlib import pairs

    res = Result()
    rng = core.rng_for("C18l", spec["tier"], spec["seed"], spec["shard"])
    pre = imodel.Preempt(core.REPO_SRC)
    pre.install()
    lab = chanlab.Lab("pipe", rng.getrandbits(32))
    try:
        lines = imodel.function_lines(gb.Channel.setcallback)
        res.info["setcallback_sweep_lines"] = len(lines)
        todo = [("sweep", ln) for ln in lines for _ in range(spec["reps"])] + [("noise", None)] * (30 * spec["reps"])
        base = tables(lab)
        for i, (mode, ln) in enumerate(todo):
            if res.enough():
                break
            lc, rc = lab.pair_newchannel_local() if i % 2 else tuple(reversed(lab.pair_newchannel_remote()))
            side = lc.gateway._channelfactory
            cid = lc.id
            nitems = rng.choice((0, 1, 3))
            for j in range(nitems):
                rc.send(j)
            pairs.wait_until(lambda: lc._items.qsize() >= nitems, 10.0)
            ending = rng.choice(("close", "close_error", "drop"))
            got: list = []
            if mode == "sweep":
                pre.restart()
                pre.set_sweep(ln[0], ln[1], 1, stall=0.08)
            else:
                pre.set_noise(rng.getrandbits(32), rng.choice((0.05, 0.3)))
            real_stderr, sys.stderr = sys.stderr, io.StringIO()
            try:
                def end_it():
                    nonlocal rc
                    time.sleep(rng.choice((0.0, 0.01, 0.03)))
                    if ending == "close":
                        rc.close()
                    elif ending == "close_error":
                        rc.close("the sender gives up")
                    else:
                        rc = None
                        gc.collect()

                t = threading.Thread(target=end_it)
                t.start()
                refused = None
                try:
                    lc.setcallback(got.append, endmarker="end")
                except OSError as e:
                    refused = e  # (the conversation had ended already: nothing is registered then)
                t.join(20)
                pre.off()
                if mode == "sweep" and pre.fired:
                    res.count("setcallback_sweep_fired")
                if refused is None:
                    pairs.wait_until(lambda: "end" in got, 10.0)
                    time.sleep(0.005)
                forgotten = pairs.wait_until(lambda: cid not in side._callbacks, 3.0)
            finally:
                sys.stderr = real_stderr
            res.count("setcallback_vs_end_runs")
            res.case(core.h64("late-callback", mode, ln, i % 2, ending, nitems))
            label = f"{mode} {ln[1] if ln else ''}: {nitems} items queued, peer ends with {ending} while setcallback() runs"
            if refused is None and got != list(range(nitems)) + ["end"]:
                res.violation("endmarker-lost-when-close-meets-setcallback" if "end" not in got else "callback-transcript-wrong-when-close-meets-setcallback",
                              f"{label}: callback saw {got!r}")
            if not forgotten:
                res.violation("channel-table-grew:callbacks", f"{label}: the callback entry of the ended conversation is still registered")
            try:
                lc.close()
            except OSError:
                pass
            del lc
            rc = None
            gc.collect()
        # the peer changes the string coercion of a conversation (reconfigure) at the moment the listening side closes it:
        # with the receiver thread held at every line of the handling of that request, the conversation is still forgotten
        rl = imodel.function_lines(gb.Message._types[gb.Message.RECONFIGURE][1])
        res.info["reconfigure_sweep_lines"] = len(rl)
        for i, ln in enumerate([x for x in rl for _ in range(spec["reps"])]):
            if res.enough():
                break
            lc, rc = lab.pair_newchannel_local() if i % 2 else tuple(reversed(lab.pair_newchannel_remote()))
            side = lc.gateway._channelfactory
            cid = lc.id
            got = []
            lc.setcallback(got.append, endmarker="end")
            rc.send(i)
            pairs.wait_until(lambda: i in got, 10.0)
            pre.restart()
            pre.set_sweep(ln[0], ln[1], 1, stall=0.08)
            real_stderr, sys.stderr = sys.stderr, io.StringIO()
            try:
                rc.reconfigure(py2str_as_py3str=True, py3str_as_py2str=bool(i % 3 == 0))
                time.sleep(rng.choice((0.0, 0.01, 0.03)))
                lc.close()
                pre.off()
                forgotten = pairs.wait_until(lambda: cid not in side._callbacks, 3.0)
            finally:
                pre.off()
                sys.stderr = real_stderr
            if pre.fired:
                res.count("reconfigure_sweep_fired")
            res.count("reconfigure_vs_close_runs")
            res.case(core.h64("reconfigure-vs-close", ln, i % 2))
            if not forgotten:
                res.violation("channel-table-grew:callbacks", f"listener closed its end while the peer's reconfigure request was handled (receiver held at line {ln[1]}): its callback entry is still registered")
            try:
                rc.close()
            except OSError:
                pass
            del lc
            rc = None
            gc.collect()
        if not chanlab.quiesce(lambda: tables(lab) == base, 5.0):
            res.violation("channel-table-grew:callbacks" if tables(lab)[1] != base[1] or tables(lab)[3] != base[3] else "channel-table-grew:channels",
                          f"after {len(todo)} setcallback-meets-end runs: {base} -> {tables(lab)}")
    finally:
        pre.uninstall()
        lab.close()
    return res


# ---------------------------------------------------------------------------
# (b) channels travelling over channels


def nest(rng, ch, depth):
    v = ch
    path = []
    for _ in range(depth):
        how = rng.choice(("list", "tuple", "dict", "padded"))
        path.append(how)
        if how == "padded":
            # a carrier item that is big on the wire
            v = (bytes([depth]) * rng.choice((70000, 300000)), v)
        elif how == "list":
            v = [1, v, "x"]
        elif how == "tuple":
            v = ("t", v)
        else:
            v = {"k": v, "other": 2}
    return v, path


def unnest(v, path):
    for how in reversed(path):
        if how in ("list", "padded"):
            v = v[1]
        elif how == "tuple":
            v = v[1]
        else:
            v = v["k"]
    return v


def run_transfer(spec):
    from execnet import gateway_base as gb
    from vlib import chanlab

    res = Result()
    rng = core.rng_for("C18b", spec["tier"], spec["seed"], spec["shard"])
    lab = chanlab.Lab(("pipe", "tcp")[spec["shard"] % 2], rng.getrandbits(32))
    for i in range(spec["runs"]):
        if res.enough():
            break
        depth = rng.choice((0, 0, 1, 2, 3))
        direction = rng.choice(("l2r", "r2l"))
        label = f"transfer {direction} depth={depth} run={i}"
        receiver = rng.choice(("receive", "receive", "callback_only"))
        label += f" receiver={receiver}"
        try:
            if receiver == "callback_only":
                # the gw.remote_exec(..).setcallback(cb) idiom: only the callback is left of the receiving channel
                import gc

                from vlib import pairs

                lc, rc = lab.pair_newchannel_local()
                box = []
                if direction == "l2r":
                    rc.setcallback(box.append)
                    out = lc
                    del rc
                    c = lab.gw.newchannel()
                else:
                    lc.setcallback(box.append)
                    out = rc
                    del lc
                    c = lab.remote_gateway.newchannel()
                gc.collect()
                v, path = nest(rng, c, depth)
                out.send(v)
                pairs.wait_until(lambda: box, 15.0)
                res.count("transfers_to_callback_only_receiver")
                if not box:
                    res.violation("channel-sent-to-callback-only-receiver-never-arrived", f"{label}: sender channel closed={out.isclosed()}")
                    out.close()
                    continue
                got = unnest(box[0], path)
                out.close()
                a, b = c, got
            else:
                c = (lab.gw if direction == "l2r" else lab.remote_gateway).newchannel()
                v, path = nest(rng, c, depth)
                if rng.random() < 0.3:
                    # the same channel is first sent to a listener that has just gone away (the item is dropped over there):
                    # that says nothing about the travelling channel, which is then sent again on a live channel
                    import gc

                    xl, xr = lab.pair_newchannel_local() if direction == "l2r" else tuple(reversed(lab.pair_newchannel_remote()))
                    del xr
                    gc.collect()
                    time.sleep(rng.choice((0.0, 0.01)))
                    try:
                        xl.send(v)
                    except OSError:
                        pass
                    time.sleep(0.02)
                    xl.close()
                    res.count("transfers_first_sent_to_a_vanished_listener")
                (lab.control_local if direction == "l2r" else lab.control_remote).send(v)
                early = rng.random() < 0.5
                if early:
                    # the sender uses the travelling channel at once, before the other side has looked at the carrier item
                    c.send(("early", i))
                    time.sleep(0.02)
                got = unnest((lab.control_remote if direction == "l2r" else lab.control_local).receive(10), path)
                a, b = c, got
                if early and type(got) is gb.Channel:
                    res.count("transfers_used_before_the_carrier_was_received")
                    try:
                        first = got.receive(10)
                    except BaseException as e:  # noqa
                        first = f"{type(e).__name__}: {e}"
                    if first != ("early", i):
                        res.violation("item-sent-on-travelling-channel-before-arrival-lost", f"{label} path={path}: first item on the arrived channel is {short(first, 100)}")
            res.count("transfers")
            res.case(core.h64("transfer", direction, depth, tuple(path), i))
            if type(got) is not gb.Channel:
                res.violation("transferred-object-not-a-channel", f"{label}: {type(got)}")
                continue
            if got.id != c.id:
                res.violation("transferred-channel-id-changed", f"{label}: {c.id} -> {got.id}")
            if got.gateway is (lab.gw if direction == "l2r" else lab.remote_gateway):
                res.violation("transferred-channel-bound-to-wrong-gateway", label)
            # ping-pong both ways
            a.send(("ping", i))
            if b.receive(10) != ("ping", i):
                res.violation("transferred-channel-not-connected", label)
            b.send(("pong", i))
            if a.receive(10) != ("pong", i):
                res.violation("transferred-channel-not-connected-back", label)
            # the same channel sent twice arrives as the same object/conversation
            if i % 5 == 0 and receiver == "receive":
                (lab.control_local if direction == "l2r" else lab.control_remote).send(c)
                again = (lab.control_remote if direction == "l2r" else lab.control_local).receive(10)
                if again.id != c.id or again is not got:
                    res.violation("retransferred-channel-is-a-different-object", label)
            a.close()
            b.waitclose(10)
        except BaseException as e:
            res.violation(f"transfer-raised:{type(e).__name__}", f"{label}: {e}")
    res.sample({"transfers": spec["runs"]})
    lab.close()
    return res


# ---------------------------------------------------------------------------
# (c) no growth


def tables(lab):
    f1 = lab.gw._channelfactory
    f2 = lab.remote_gateway._channelfactory
    return len(f1._channels), len(f1._callbacks), len(f2._channels), len(f2._callbacks)


def one_cycle(res, lab, rng, shape, n):
    from execnet.gateway_base import RemoteError

    gw = lab.gw
    if shape == "close_local":
        lc, rc = lab.pair_newchannel_local()
        lc.send(n)
        rc.receive(10)
        lc.close()
        rc.waitclose(10)
    elif shape == "close_remote":
        lc, rc = lab.pair_newchannel_remote()
        rc.send(n)
        lc.receive(10)
        rc.close()
        lc.waitclose(10)
    elif shape == "end_of_exec":
        ch = gw.remote_exec("channel.send(channel.receive() + 1)")
        ch.send(n)
        assert ch.receive(10) == n + 1
        ch.waitclose(10)
    elif shape == "exec_error":
        ch = gw.remote_exec("raise ValueError('x')")
        try:
            ch.waitclose(10)
        except RemoteError:
            pass
    elif shape == "drop_local":
        lc, rc = lab.pair_newchannel_local()
        lc.send(n)
        del lc
        gc.collect()
        rc.receive(10)
        rc.waitclose(10)
    elif shape == "drop_remote":
        lc, rc = lab.pair_newchannel_remote()
        del rc
        gc.collect()
        lc.waitclose(10)
    elif shape == "error":
        lc, rc = lab.pair_newchannel_local()
        rc.close("deliberate")
        try:
            lc.waitclose(10)
        except RemoteError:
            pass
    elif shape == "callback":
        got = []
        ch = gw.remote_exec("for i in range(3): channel.send(i)")
        ch.setcallback(got.append, endmarker="end")
        ch.waitclose(10)
    elif shape == "callback_drop":
        got = []
        ch = gw.remote_exec("for i in range(3): channel.send(i)")
        ch.setcallback(got.append, endmarker="end")
        del ch
        gc.collect()
        from vlib import pairs

        pairs.wait_until(lambda: "end" in got, 10)
    elif shape == "reply_channel_both_dropped":
        # X creates a reply channel, listens on it by callback, hands it over nested in a container and drops its object;
        # Y answers on it and drops its end without ever calling close()
        from vlib import pairs

        got = []
        c = gw.newchannel()
        c.setcallback(got.append, endmarker="end")
        lab.control_local.send({"reply": (c,)})
        del c
        gc.collect()
        rc = lab.control_remote.receive(10)["reply"][0]
        rc.send(("answer", n))
        del rc
        gc.collect()
        if not pairs.wait_until(lambda: "end" in got, 15.0) or got != [("answer", n), "end"]:
            res.violation("reply-channel-endmarker-withheld", f"cycle {n}: callback saw {got!r}")
    elif shape == "callback_then_local_close":
        got = []
        lc, rc = lab.pair_newchannel_local()
        lc.setcallback(got.append, endmarker="end")
        rc.send(n)
        from vlib import pairs

        pairs.wait_until(lambda: n in got, 15.0)
        lc.close()
        if got != [n, "end"]:
            res.violation("callback-endmarker-missing-after-local-close", f"cycle {n}: {got!r}")
        rc.waitclose(10)
    elif shape == "both_callbacks_peer_drops_first":
        # both ends listen by callback; the peer drops its object first (our end becomes send-only), we go on sending and
        # finally drop our object too, without ever calling close()
        from vlib import pairs

        lgot, rgot = [], []
        lc, rc = lab.pair_newchannel_local() if n % 2 else tuple(reversed(lab.pair_newchannel_remote()))
        lc.setcallback(lgot.append, endmarker="end")
        rc.setcallback(rgot.append, endmarker="end")
        del rc
        gc.collect()
        pairs.wait_until(lambda: "end" in lgot, 15.0)
        try:
            lc.send(("still", n))
        except OSError as e:
            res.violation("send-on-sendonly-channel-refused", f"cycle {n}: {e}")
        pairs.wait_until(lambda: ("still", n) in rgot, 15.0)
        del lc
        gc.collect()
        pairs.wait_until(lambda: "end" in rgot, 15.0)
        if lgot != ["end"] or rgot != [("still", n), "end"]:
            res.violation("sendonly-conversation-transcript-wrong", f"cycle {n}: first dropper saw {rgot!r}, second dropper saw {lgot!r}")
    elif shape == "callback_channel_sent_back":
        # a conversation whose local end has only its callback left; the peer then passes this very channel back inside an
        # item of another channel (a second object for the same conversation appears here): the callback stays the receiver
        from vlib import pairs

        got = []
        lc, rc = lab.pair_newchannel_local()
        lc.setcallback(got.append, endmarker="end")
        del lc
        gc.collect()
        rc.send(1)
        pairs.wait_until(lambda: got == [1], 15.0)
        lab.control_remote.send({"again": rc})
        again = lab.control_local.receive(10)["again"]
        rc.send(2)
        rc.send(3)
        rc.close()
        pairs.wait_until(lambda: "end" in got, 15.0)
        if got != [1, 2, 3, "end"] or again.id != rc.id:
            res.violation("callback-lost-items-to-a-second-object-of-its-channel", f"cycle {n}: callback saw {got!r}")
        del again
        gc.collect()
    elif shape == "endmarker_callback_raises":
        # user code that cannot cope with its own endmarker: execnet only warns; the finished conversation is forgotten anyway
        import io
        import sys

        from vlib import pairs

        seen = []

        def doubling(item):
            seen.append(item)
            return item * 2  # TypeError for the endmarker None

        lc, rc = lab.pair_newchannel_local() if n % 2 else tuple(reversed(lab.pair_newchannel_remote()))
        real_stderr, sys.stderr = sys.stderr, io.StringIO()
        try:
            lc.setcallback(doubling, endmarker=None)
            rc.send(n)
            pairs.wait_until(lambda: n in seen, 15.0)
            (rc.close if n % 3 else lc.close)()
            pairs.wait_until(lambda: None in seen, 15.0)
            lc.waitclose(10)
            rc.waitclose(10)
        finally:
            sys.stderr = real_stderr
        if seen != [n, None]:
            res.violation("callback-transcript-wrong-with-failing-endmarker", f"cycle {n}: {seen!r}")
    elif shape == "error_close_to_callback_only_listener":
        # the listener keeps only its callback; the other side ends the conversation with an error (explicit close("..."),
        # or a remote body that raises): the listener still gets its endmarker and both sides forget the conversation
        import io
        import sys

        from vlib import pairs

        got = []
        real_stderr, sys.stderr = sys.stderr, io.StringIO()
        try:
            if n % 3 == 1:
                lc, rc = lab.pair_newchannel_local()
                lc.setcallback(got.append, endmarker="end")
                del lc
                gc.collect()
                rc.send(n)
                pairs.wait_until(lambda: n in got, 15.0)
                rc.close("the sender gives up")
                rc.waitclose(10)
            elif n % 3 == 2:
                # the body ends *because* its receive() saw the listener's end go away (EOFError, not caught)
                ch = gw.remote_exec("channel.send(%d)\nchannel.receive()" % n)
                ch.setcallback(got.append, endmarker="end")
                del ch
                gc.collect()
            else:
                ch = gw.remote_exec("channel.send(%d)\ntry:\n    channel.receive()\nexcept EOFError:\n    pass\nraise ValueError('body fails after the listener dropped its end')" % n)
                ch.setcallback(got.append, endmarker="end")
                del ch
                gc.collect()
            pairs.wait_until(lambda: "end" in got, 15.0)
        finally:
            sys.stderr = real_stderr
        if got != [n, "end"]:
            res.violation("endmarker-withheld-after-error-close-to-callback-only-listener", f"cycle {n}: callback saw {got!r}")
    elif shape == "item_callback_raises_on_callback_only_listener":
        # the listener keeps only its callback, and the callback fails for an item: that ends the conversation on the
        # listener's side at once (endmarker, entry forgotten) although the sender still holds its channel object
        import io
        import sys

        from vlib import pairs

        got = []

        def picky(item):
            got.append(item)
            if item == "bad":
                raise ValueError("listener cannot cope")

        real_stderr, sys.stderr = sys.stderr, io.StringIO()
        try:
            lc, rc = lab.pair_newchannel_local() if n % 2 else tuple(reversed(lab.pair_newchannel_remote()))
            side = lc.gateway._channelfactory
            cid = lc.id
            lc.setcallback(picky, endmarker="end")
            del lc
            gc.collect()
            rc.send(n)
            pairs.wait_until(lambda: n in got, 15.0)
            rc.send("bad")
            pairs.wait_until(lambda: "end" in got, 15.0)
            forgotten = pairs.wait_until(lambda: cid not in side._callbacks, 2.0)
            try:
                rc.send("more")  # (the sender's object is still there; what it sends now belongs to no conversation)
            except OSError:
                pass
            time.sleep(0.02)
            snapshot = list(got)
            rc.close()
        finally:
            sys.stderr = real_stderr
        if snapshot != [n, "bad", "end"]:
            res.violation("endmarker-withheld-after-failing-callback-of-callback-only-listener", f"cycle {n}: callback saw {snapshot!r} while the sender still held its end")
        elif not forgotten:
            res.violation("channel-table-grew:callbacks", f"cycle {n}: callback entry of the failed listener still registered while the sender holds its end")
    elif shape == "exec_sets_callback_on_own_channel":
        ch = gw.remote_exec("seen = []\nchannel.setcallback(seen.append, endmarker=None)\nchannel.send('ready')")
        assert ch.receive(10) == "ready"
        ch.waitclose(10)  # the body returns at once: execnet closes the channel (and must forget its callback)
    elif shape == "remote_status":
        st = gw.remote_status()
        assert st.numchannels >= 0
    elif shape == "nested_transfer":
        c = gw.newchannel()
        lab.control_local.send({"k": [c]})
        rc = lab.control_remote.receive(10)["k"][0]
        rc.send("hi")
        c.receive(10)
        c.close()
        rc.waitclose(10)


def run_cycles(spec):
    from vlib import chanlab

    res = Result()
    rng = core.rng_for("C18c", spec["tier"], spec["seed"], spec["shard"])
    lab = chanlab.Lab(spec["transport"], rng.getrandbits(32))
    chanlab.quiesce(lambda: False, 0.05)
    base = tables(lab)
    base_status = lab.gw.remote_status().numchannels
    base_repr = int(re.search(r"(\d+) active channels", repr(lab.gw)).group(1))
    shape_counts = {}
    for n in range(spec["n"]):
        if res.enough():
            break
        shape = rng.choice(SHAPES)
        shape_counts[shape] = shape_counts.get(shape, 0) + 1
        try:
            one_cycle(res, lab, rng, shape, n)
            res.count("cycles")
        except BaseException as e:
            res.violation(f"cycle-raised:{shape}:{type(e).__name__}", str(e)[-300:])
            break
        if n % 100 == 99 or n == spec["n"] - 1:
            ok = chanlab.quiesce(lambda: tables(lab) == base, 5.0)
            res.count("quiescent_checks")
            if not ok:
                now = tables(lab)
                names = ("initiator _channels", "initiator _callbacks", "worker _channels", "worker _callbacks")
                grown = [f"{nm}: {b} -> {v}" for nm, b, v in zip(names, base, now) if v != b]
                which = "callbacks" if (now[1] != base[1] or now[3] != base[3]) else "channels"
                res.violation(f"channel-table-grew:{which}", f"after {n + 1} cycles {shape_counts}: {grown}")
                break
            t0 = time.monotonic()
            while True:
                gc.collect()
                st = lab.gw.remote_status().numchannels
                rp = int(re.search(r"(\d+) active channels", repr(lab.gw)).group(1))
                if (st == base_status and rp == base_repr) or time.monotonic() - t0 > 5:
                    break
                time.sleep(0.01)
            if st != base_status or rp != base_repr:
                res.violation("reported-channel-count-grew", f"remote_status {base_status}->{st}, repr {base_repr}->{rp}")
    res.case(core.h64("cycles", spec["shard"], tuple(sorted(shape_counts.items()))))
    res.case(core.h64("cycles-b", spec["shard"]))
    res.info["cycle_shapes"] = shape_counts
    res.sample({"cycles": spec["n"], "shapes": shape_counts, "baseline": base})
    lab.close()
    return res


REAL_TABLES = "f = channel.gateway._channelfactory\nimport gc\ngc.collect()\nchannel.send((len(f._channels), len(f._callbacks)))\n"


def run_real(spec):
    import execnet
    from execnet.gateway_base import RemoteError

    res = Result()
    rng = core.rng_for("C18r", spec["tier"], spec["seed"], spec["spec"])
    group = execnet.Group()
    try:
        if spec["spec"] == "popen":
            gw = group.makegateway("popen")
        elif spec["spec"] == "socket":
            group.makegateway("popen//id=m")
            gw = group.makegateway("socket//installvia=m")
        else:
            group.makegateway("popen//id=m")
            gw = group.makegateway("popen//via=m")

        def remote_tables():
            ch = gw.remote_exec(REAL_TABLES)
            r = ch.receive(20)
            ch.waitclose(20)
            return tuple(r)

        def local_tables():
            gc.collect()
            f = gw._channelfactory
            return len(f._channels), len(f._callbacks)

        # the measuring channel itself is registered while it measures: baseline taken the same way
        base_r = remote_tables()
        base_l = local_tables()
        base_status = gw.remote_status().numchannels
        counts = {}
        for n in range(spec["n"]):
            if res.enough(2):
                break
            shape = rng.choice(("end_of_exec", "exec_error", "callback", "callback_drop", "remote_status", "sub_close", "sub_drop", "transfer", "callback_drop_body_eof"))
            counts[shape] = counts.get(shape, 0) + 1
            if shape == "end_of_exec":
                ch = gw.remote_exec("channel.send(channel.receive())")
                ch.send(n)
                ch.receive(20)
                ch.waitclose(20)
            elif shape == "exec_error":
                ch = gw.remote_exec("raise KeyError(1)")
                try:
                    ch.waitclose(20)
                except RemoteError:
                    pass
            elif shape in ("callback", "callback_drop"):
                got = []
                ch = gw.remote_exec("for i in range(3): channel.send(i)")
                ch.setcallback(got.append, endmarker="end")
                if shape == "callback_drop":
                    del ch
                    gc.collect()
                t0 = time.monotonic()
                while "end" not in got and time.monotonic() - t0 < 20:
                    time.sleep(0.001)
                if got != [0, 1, 2, "end"]:
                    res.violation(f"real-callback-transcript-wrong:{shape}:{spec['spec']}", repr(got))
            elif shape == "callback_drop_body_eof":
                # the listener keeps only its callback; the body ends because its receive() sees that (EOFError, not caught):
                # the conversation is over on both sides at once, not when the worker happens to run something else
                got = []
                ch = gw.remote_exec("channel.send(%d)\nchannel.receive()" % n)
                ch.setcallback(got.append, endmarker="end")
                del ch
                gc.collect()
                t0 = time.monotonic()
                while "end" not in got and time.monotonic() - t0 < 15:
                    time.sleep(0.001)
                if got != [n, "end"]:
                    res.violation(f"endmarker-withheld-after-body-ended-with-eoferror:{spec['spec']}", f"cycle {n}: callback saw {got!r} 15 s after the listener dropped its end")
            elif shape == "remote_status":
                gw.remote_status()
            elif shape in ("sub_close", "sub_drop"):
                ch = gw.remote_exec("c = channel.gateway.newchannel()\nchannel.send(c)\nc.send('x')\n" + ("c.close()\n" if shape == "sub_close" else "del c\n"))
                c = ch.receive(20)
                c.receive(20)
                c.waitclose(20)
                ch.waitclose(20)
            else:
                c = gw.newchannel()
                ch = gw.remote_exec("c = channel.receive()[0]['k']\nc.send(c.receive() * 2)\n")
                ch.send([{"k": c}])
                c.send(21)
                if c.receive(20) != 42:
                    res.violation(f"real-transferred-channel-not-connected:{spec['spec']}", "")
                c.close()
                ch.waitclose(20)
            res.count("cycles")
        # quiescence
        t0 = time.monotonic()
        ok = False
        while time.monotonic() - t0 < 6:
            if local_tables() == base_l and remote_tables() == base_r:
                ok = True
                break
            time.sleep(0.05)
        res.count("quiescent_checks")
        if not ok:
            res.violation(f"channel-table-grew:real-{spec['spec']}", f"after {spec['n']} cycles {counts}: local {base_l}->{local_tables()} remote {base_r}->{remote_tables()}")
        t0 = time.monotonic()
        while True:  # the worker forgets a finished exec's channel object asynchronously: poll, bounded
            st = gw.remote_status().numchannels
            if st == base_status or time.monotonic() - t0 > 6:
                break
            time.sleep(0.05)
        if st != base_status:
            res.violation(f"reported-channel-count-grew:real-{spec['spec']}", f"{base_status}->{st}")
        res.case(core.h64("real", spec["spec"], tuple(sorted(counts.items()))))
        res.case(core.h64("real-b", spec["spec"]))
        res.sample({"real": spec["spec"], "cycles": spec["n"], "shapes": counts})
    except BaseException as e:
        res.violation(f"real-run-raised:{spec['spec']}:{type(e).__name__}", str(e)[-300:])
    finally:
        group.terminate(3.0)
    return res
