#!/venv/bin/python
"""Copies a confirmed seeded change into /verif/seeded/<prop>-<mN>/ and writes its meta.json.

usage: tools/keep_seeded.py <PROP> <mN> --caught-by C01[,C10] --seconds 13 [--note "..."] [--missed-before "..."]
Reads /tmp/mut/<PROP>/_out/<mN>/{patch.diff,demo*,notes.md} and /tmp/confirm/<PROP>_<mN>.result."""
import argparse
import json
import os
import shutil
import sys

ap = argparse.ArgumentParser()
ap.add_argument("prop")
ap.add_argument("m")
ap.add_argument("--caught-by", default="")
ap.add_argument("--mechanisms", default="")
ap.add_argument("--seconds", default="")
ap.add_argument("--note", default="")
ap.add_argument("--missed-before", default="")
a = ap.parse_args()
src = f"/tmp/mut/{a.prop}/_out/{a.m}"
dst = f"/verif/seeded/{a.prop}-{a.m}"
os.makedirs(dst, exist_ok=True)
shutil.copy(os.path.join(src, "patch.diff"), os.path.join(dst, "patch.diff"))
for f in os.listdir(src):
    if f.startswith("demo") or (f.endswith((".py", ".sh")) and os.path.isfile(os.path.join(src, f))):
        shutil.copy(os.path.join(src, f), os.path.join(dst, f))
notes = ""
if os.path.exists(os.path.join(src, "notes.md")):
    notes = open(os.path.join(src, "notes.md")).read()
    shutil.copy(os.path.join(src, "notes.md"), os.path.join(dst, "notes.md"))
confirm = ""
rp = f"/tmp/confirm/{a.prop}_{a.m}.result"
if os.path.exists(rp):
    confirm = open(rp).read().strip()
needs = ""
for line in notes.splitlines():
    low = line.lower()
    if "needs" in low or "manifest" in low:
        needs = line.strip(" -*#")
        break
meta = {
    "id": f"{a.prop}-{a.m}",
    "breaks_property": a.prop,
    "origin": "independent sub-agent given only the property text and a scratch worktree of /repo",
    "needs_to_manifest": needs or "see notes.md",
    "confirmed_by_me": confirm or "not confirmed",
    "how_confirmed": "tools/confirm_mutation.sh: fresh worktree of /repo HEAD; demo passes without the patch, fails with it; "
                     "repository test suite run against the patched worktree (PYTHONPATH=<wt>/src), known-flaky tests tolerated",
    "detected_by_checks": [c for c in a.caught_by.split(",") if c],
    "detecting_mechanisms": a.mechanisms,
    "quick_check_seconds": a.seconds,
    "missed_before_strengthening": a.missed_before,
    "note": a.note,
    "how_to_rerun": f"tools/try_mutation.sh /verif/seeded/{a.prop}-{a.m}/patch.diff <CHECK-ID>   (scratch worktree, /repo untouched) "
                    f"or: git -C /repo apply /verif/seeded/{a.prop}-{a.m}/patch.diff; ./check <ID>; git -C /repo checkout -- .",
}
with open(os.path.join(dst, "meta.json"), "w") as f:
    json.dump(meta, f, indent=1)
print("kept", dst, "caught by", meta["detected_by_checks"])
