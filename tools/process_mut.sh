#!/bin/sh
# usage: tools/process_mut.sh <ID> <mN> [extra check ids...]  -- confirm a seeded change and run the property's own check (plus extras) against it
id="$1"; m="$2"; shift 2
tools/confirm_mutation.sh "$id" "$m" | cut -c1-260
for c in "$id" "$@"; do tools/try_mutation.sh /tmp/mut/$id/_out/$m/patch.diff "$c" | grep -v "^VIOLATION" | cut -c1-260; done
