check("C01", "exploration",
      "Runtime monitor: ~190k (quick) generated values per run are pushed through dumps/loads, dump/load over chunked streams and real channels (in-process pipe/TCP pairs + popen workers); an oracle compares type-tagged canonical forms; ~50 unsupported leaf kinds are planted at generated positions and must yield DumpError with zero bytes on the write tee and a usable channel afterwards. Held-on-observed, not a proof.",
      "Trusts the value generator's coverage, the canon() normal form and the reference encoder used for distinctness; nesting > 150 and ints beyond CPython's str-digit limit on channels are not driven.",
      "runtime monitoring: differential round-trip oracle over generated values + write-tee on live channels", "DESIGN.md §3 C01")
