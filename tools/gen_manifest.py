#!/venv/bin/python
"""Regenerates /verif/MANIFEST.json from the table below (kept in one place so the
manifest stays valid while checks are added)."""
import json
import os

HERE = os.path.dirname(os.path.dirname(os.path.abspath(__file__)))

CHECKS = {}


def check(pid, category, text, note, technique, design_ref):
    CHECKS[pid] = dict(category=category, text=text, note=note, technique=technique, design_ref=design_ref)


exec(open(os.path.join(HERE, "tools", "manifest_table.py")).read())

ALL = ["C%02d" % i for i in range(1, 21)]
PENDING_REASON = {}
exec(open(os.path.join(HERE, "tools", "manifest_na.py")).read())

m = {
    "version": 1,
    "setup_cmd": "/venv/bin/python -m compileall -q /verif/vlib /verif/monitors /verif/ref >/dev/null; chmod +x /verif/check; /venv/bin/python /verif/tools/selfcheck.py",
    "hooks": {
        "guard": "EXECNET_VERIF",
        "enable": "no source hooks in /repo: monitors attach from outside (injected ExecModel instances, sys.monitoring, IO tees, /proc). EXECNET_VERIF=noise:<seed>:<p>:<ms> is read only by /verif/vlib/inject/sitecustomize.py, which shards put on the PYTHONPATH of real worker processes to get line-level schedule noise inside them",
        "baseline_off_cmd": "cd /repo && /venv/bin/python -m pytest -ra -q -p no:cacheprovider --timeout=900 --continue-on-collection-errors",
        "source_commits": [],
        "add_only": True,
    },
    "engines": [
        {"name": "check", "path": "/verif/check", "serves_properties": sorted(CHECKS),
         "kind_free_text": "runtime monitors: sharded workloads against /repo/src with API-boundary histories, invariant hooks, IO tees, schedule and fault injection; offline oracles"}
    ],
    "checks": [],
    "notes": "All checks import execnet from /repo/src (the pinned pytest command imports the installed 2.1.2 release instead). Exit 2 + INCONCLUSIVE line = deciding monitor not reached.",
    "not_applicable": [],
}
for pid in ALL:
    if pid in CHECKS:
        c = CHECKS[pid]
        m["checks"].append({
            "property_id": pid,
            "quick_cmd": f"./check {pid} --tier quick",
            "thorough_cmd": f"./check {pid} --tier thorough",
            "evidence_file": f"/verif/evidence/{pid}.json",
            "replay_cmd_template": f"./check {pid} --replay {{path}}",
            "engine": "check",
            "level_claimed": {"category": c["category"], "text": c["text"], "design_ref": c["design_ref"]},
            "level_note": c["note"],
            "technique": c["technique"],
        })
    else:
        m["not_applicable"].append({"property_id": pid, "reason": PENDING_REASON.get(pid, "monitor not built yet in this session (planned, see DESIGN.md); not claimed")})
with open(os.path.join(HERE, "MANIFEST.json"), "w") as f:
    json.dump(m, f, indent=1)
    f.write("\n")
print("checks:", sorted(CHECKS), "n/a:", [x["property_id"] for x in m["not_applicable"]])
