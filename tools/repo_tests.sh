#!/bin/sh
# Run the repository's own suite (a) as pinned (imports the installed release) and
# (b) against the working tree in /repo/src.  Prints the two summary lines.
cd /repo || exit 1
if [ "$1" != "src-only" ]; then
/venv/bin/python -m pytest -q -p no:cacheprovider --timeout=900 2>&1 | tail -3
fi
PYTHONPATH=/repo/src /venv/bin/python -m pytest -q -p no:cacheprovider --timeout=900 2>&1 | grep -E "^(FAILED|ERROR)|passed|failed" | tail -15
