#!/bin/sh
# usage: tools/try_mutation.sh <patch.diff> <ID> [tier]
# Runs a check against a seeded change WITHOUT touching /repo: the change is applied to a scratch worktree of /repo's
# HEAD and the check is pointed at it through VERIF_REPO (several of these can run side by side).
patch="$1"; id="$2"; tier="${3:-quick}"
wt=/tmp/mutrun/wt_$$
mkdir -p /tmp/mutrun
git -C /repo worktree add -q --detach "$wt" HEAD || exit 2
cp /repo/src/execnet/_version.py "$wt/src/execnet/"
( cd "$wt" && { git apply "$patch" 2>/dev/null || git apply -3 "$patch"; } ) || { echo "patch does not apply"; git -C /repo worktree remove --force "$wt"; exit 2; }
cd /verif
start=$(date +%s)
VERIF_REPO="$wt" VERIF_EVIDENCE_DIR=/tmp/mutrun/ev_$$ timeout 1500 ./check "$id" --tier "$tier" > /tmp/mutrun/out_$$.txt 2>&1
rc=$?
end=$(date +%s)
git -C /repo worktree remove --force "$wt"
echo "== $patch on $id: exit=$rc in $((end-start))s"
grep -E "^# .* mechanism=" /tmp/mutrun/out_$$.txt | cut -c1-260 | head -6
grep -E "^(VIOLATION|INCONCLUSIVE)" /tmp/mutrun/out_$$.txt | cut -c1-200 | head -3
rm -rf /tmp/mutrun/ev_$$ /tmp/mutrun/out_$$.txt
