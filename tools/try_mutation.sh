#!/bin/sh
# usage: tools/try_mutation.sh <patch.diff> <ID> [tier] -- apply a seeded change to /repo, run the check, undo it straight away
patch="$1"; id="$2"; tier="${3:-quick}"
cd /repo || exit 2
if [ -n "$(git status --porcelain --untracked-files=no)" ]; then echo "repo not clean"; exit 2; fi
git apply "$patch" || { echo "patch does not apply"; exit 2; }
cd /verif
start=$(date +%s)
timeout 1500 ./check "$id" --tier "$tier" > /tmp/try_mut_out.txt 2>&1
rc=$?
end=$(date +%s)
git -C /repo checkout -- .
echo "== $patch on $id: exit=$rc in $((end-start))s"
grep -E "^# .* mechanism=" /tmp/try_mut_out.txt | cut -c1-260 | head -6
grep -E "^(VIOLATION|INCONCLUSIVE)" /tmp/try_mut_out.txt | cut -c1-200 | head -3
