#!/venv/bin/python
"""setup-time sanity: the interpreter, the repository tree and sys.monitoring are usable offline."""
import os
import sys

assert sys.version_info >= (3, 12), sys.version
assert hasattr(sys, "monitoring")
assert os.path.isfile("/repo/src/execnet/gateway_base.py")
sys.path.insert(0, "/verif")
from vlib import core  # noqa: E402

core.use_repo()
print("selfcheck ok")
