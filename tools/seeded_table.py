#!/venv/bin/python
"""Regenerates section 10 of DESIGN.md (seeded changes and the checks that catch them) from seeded/*/meta.json."""
import glob, json, os, re
rows = []
for f in sorted(glob.glob("/verif/seeded/*/meta.json")):
    m = json.load(open(f))
    notes = ""
    np_ = os.path.join(os.path.dirname(f), "notes.md")
    title = ""
    if os.path.exists(np_):
        for line in open(np_):
            if line.strip().startswith("#"):
                title = line.strip("# \n")
                break
    rows.append((m["id"], title[:110], ", ".join(m["detected_by_checks"]) or "-", str(m.get("quick_check_seconds", "")),
                 (m.get("detecting_mechanisms") or "")[:120], (m.get("missed_before_strengthening") or "")[:260]))
out = ["## 10. Seeded changes and which checks catch them", "",
       "Each change below was written by a fresh sub-agent that saw only the text of one property and its own scratch worktree",
       "of /repo (nothing from /verif).  I kept a change only after confirming in a fresh worktree of /repo's HEAD that its",
       "demonstration passes without it and fails with it and that the repository's own suite (run against the patched worktree,",
       "`PYTHONPATH=<wt>/src`) shows nothing beyond the known-flaky tests (`tools/confirm_mutation.sh`).  Checks were run against",
       "each change with `tools/try_mutation.sh` (scratch worktree + `VERIF_REPO`; /repo itself is never modified) on the quick tier.",
       "`missed at first` says what the machinery lacked when the change was first tried and what was added; every listed change is",
       "now reported with a `VIOLATION` line by the named check(s).", "",
       "| id | change (from its notes) | caught by | quick s | mechanism(s) reported | missed at first -> strengthening |", "|---|---|---|---|---|---|"]
for r in rows:
    out.append("| " + " | ".join(x.replace("|", "/").replace("\n", " ") for x in r) + " |")
missed = [r for r in rows if r[5]]
out += ["", f"{len(rows)} confirmed changes (ten rounds: m1-m3, m5-m7, m8-m9, m10-m11, m12-m13, m14-m15, m16-m17, m18-m19, m20-m21, and m22 for ten of the properties); {len(missed)} were missed by the responsible check as it stood when the change arrived and led to the",
        "strengthenings named in the last column (aliased sub-objects in the value generator, late channel creation and dropped callback",
        "channels under connection loss, more function signatures and rewritten modules for remote_exec, pipelined bursts and short socket",
        "reads across transports, terminate against a hanging proxied worker, completion racing with a refused submission, implicit close of",
        "channel files, configuration failures after bootstrap, an in-process worker-exit sweep, a per-load watchdog).", ""]
p = "/verif/DESIGN.md"
s = open(p).read()
i = s.find("## 10. Seeded changes and which checks catch them")
if i != -1:
    s = s[:i].rstrip() + "\n\n"
else:
    s = s.rstrip() + "\n\n---------------------------------------------------------------------------\n\n"
open(p, "w").write(s + "\n".join(out))
print(len(rows), "rows")
