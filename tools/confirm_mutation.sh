#!/bin/sh
# usage: tools/confirm_mutation.sh <ID> <mN>
# Confirms a seeded change independently in a scratch worktree of /repo HEAD:
#  demo passes without it, demo fails with it, the repository's own tests still pass with it
#  (against the worktree: PYTHONPATH=<wt>/src; known-flaky tests tolerated). Writes /tmp/confirm/<ID>_<mN>.result
id="$1"; m="$2"
src=/tmp/mut/$id/_out/$m
wt=/tmp/confirm/wt_${id}_$m
out=/tmp/confirm/${id}_$m.result
mkdir -p /tmp/confirm
rm -rf "$wt"; git -C /repo worktree prune
git -C /repo worktree add -q --detach "$wt" HEAD || exit 2
cp /repo/src/execnet/_version.py "$wt/src/execnet/"
mkdir -p "$wt/_demo"
for f in "$src"/demo* "$src"/*.py "$src"/*.sh; do [ -f "$f" ] || continue; sed "s#/tmp/mut/$id#$wt#g" "$f" > "$wt/_demo/$(basename $f)"; done
cd "$wt"
run_demo() {
  if [ -f _demo/demo_test.py ]; then PYTHONPATH=$wt/src timeout 600 /venv/bin/python -m pytest -q -p no:cacheprovider --timeout=900 -x _demo/demo_test.py > "$1" 2>&1; echo $?
  else PYTHONPATH=$wt/src timeout 600 /venv/bin/python _demo/demo.py > "$1" 2>&1; echo $?; fi
}
rc_without=$(run_demo /tmp/confirm/${id}_$m.demo_without.log)
if git apply "$src/patch.diff" 2>/dev/null; then applied=yes; elif git apply -3 "$src/patch.diff" && ! grep -rq "^<<<<<<<" src; then applied=yes-3way; git diff HEAD -- src > /tmp/confirm/${id}_$m.ported.diff; else applied=no; fi
rc_with=$(run_demo /tmp/confirm/${id}_$m.demo_with.log)
PYTHONPATH=$wt/src timeout 1500 /venv/bin/python -m pytest -q -p no:cacheprovider --timeout=900 testing > /tmp/confirm/${id}_$m.suite.log 2>&1
fails=$(grep -E "^(FAILED|ERROR)" /tmp/confirm/${id}_$m.suite.log | grep -v -E "test_channel_passing_over_channel|test_dont_write_bytecode|test__rinfo|test_waitclose_on_remote_killed" | tr '\n' ';')
summary=$(grep -E "[0-9]+ passed" /tmp/confirm/${id}_$m.suite.log | tail -1)
echo "id=$id m=$m applied=$applied demo_without_rc=$rc_without demo_with_rc=$rc_with unexpected_suite_failures=[$fails] suite=[$summary]" > "$out"
cd /; git -C /repo worktree remove --force "$wt"
cat "$out"
