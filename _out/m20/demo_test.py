# run: cd /tmp/mut/C02 && PYTHONPATH=/tmp/mut/C02/src /venv/bin/python -m pytest -q -p no:cacheprovider _out/m20/demo_test.py
"""C02 / m20: what the receiving side obtains is exactly what was sent, item
by item - also when the sender sends one (big) mutable object again after
having changed it, on the same or on another channel."""

import threading

import execnet
import pytest

ECHO = """
while 1:
    item = channel.receive()
    if item is None:
        break
    # don't send it back as it is: (length, first, last, checksum)
    if isinstance(item, dict):
        channel.send(("dict", len(item), sorted(item)[0], sorted(item)[-1]))
    else:
        channel.send(("list", len(item), item[0], item[-1], sum(item)))
"""

SIZE = 20000  # serialized: well above 32 KiB


@pytest.fixture
def group():
    group = execnet.Group()
    yield group
    group.terminate(timeout=2.0)


def summary(item):
    if isinstance(item, dict):
        return ("dict", len(item), sorted(item)[0], sorted(item)[-1])
    return ("list", len(item), item[0], item[-1], sum(item))


def test_growing_list_same_channel(group):
    gw = group.makegateway("popen")
    channel = gw.remote_exec(ECHO)
    results = list(range(SIZE))
    for round in range(4):
        channel.send(results)
        assert channel.receive(timeout=20) == summary(results)
        results.append(-round)  # same object, one more element
        results[0] += 1
    channel.send(None)
    channel.waitclose(20)


def test_changed_dict_other_channel_other_gateway(group):
    gw1 = group.makegateway("popen")
    gw2 = group.makegateway("popen")
    ch1 = gw1.remote_exec(ECHO)
    ch2 = gw2.remote_exec(ECHO)
    state = {i: i for i in range(SIZE)}
    ch1.send(state)
    assert ch1.receive(timeout=20) == summary(state)
    state[-5] = 0
    del state[SIZE - 1]
    ch2.send(state)
    assert ch2.receive(timeout=20) == summary(state)
    ch1.send(None)
    ch2.send(None)


def test_worker_side_sender(group):
    # the sending side is the worker here
    gw = group.makegateway("popen")
    channel = gw.remote_exec(
        """
        buf = list(range(%d))
        for i in range(3):
            channel.send(buf)
            buf[-1] = -i - 1      # reuse the buffer for the next block
        """
        % SIZE
    )
    got = [channel.receive(timeout=20)[-1] for i in range(3)]
    assert got == [SIZE - 1, -1, -2]


def test_small_items_and_unchanged_big_items_still_fine(group):
    # sanity: passes with and without the change
    gw = group.makegateway("popen")
    channel = gw.remote_exec(ECHO)
    small = [1, 2, 3]
    channel.send(small)
    assert channel.receive(timeout=20) == summary(small)
    small.append(4)
    channel.send(small)
    assert channel.receive(timeout=20) == summary(small)
    big = list(range(SIZE))
    for i in range(2):
        channel.send(big)
        assert channel.receive(timeout=20) == summary(big)
    channel.send(None)
