"""L6 reference artefacts: execnet dump format version 2 and the message frame
format, written from the format description (not from the repository code).

Dump format v2
  stream   := [version byte 0x02] item STOP('Q')
  None 'L' | True 'R' | False 'C'
  int      'F' + '!i'                     if -2**31 <= n <= 2**31-1
           'H' + '!i' len + ascii decimal otherwise
  float    'D' + '!d'      complex 'T' + '!dd'
  bytes    'A' + '!i' len + data
  str      'N' + '!i' len + utf-8
  list     'K' + '!i' n, then n x (index-item value-item 'P')
  dict     'J', then per entry (key-item value-item 'P')
  tuple    items..., '@' + '!i' n      set 'O'      frozenset 'E'
  channel  'B' + '!i' id
  legacy (python 2 writers): 'M' py2 str, 'S' unicode (utf-8), 'G' long (4 byte),
  'I' long (decimal text, may carry no 'L')

Frame: '!bii' (msgcode, channelid, payloadlen) + payload.

Kept Python-2 compatible on purpose (the legacy encoder may be run by 2.7).
"""

import struct

VERSION = b"\x02"
INT_MIN = -(2 ** 31)
INT_MAX = 2 ** 31 - 1

OPC = dict(
    BUILDTUPLE=b"@", BYTES=b"A", CHANNEL=b"B", FALSE=b"C", FLOAT=b"D", FROZENSET=b"E", INT=b"F",
    LONG=b"G", LONGINT=b"H", LONGLONG=b"I", NEWDICT=b"J", NEWLIST=b"K", NONE=b"L", PY2STRING=b"M",
    PY3STRING=b"N", SET=b"O", SETITEM=b"P", STOP=b"Q", TRUE=b"R", UNICODE=b"S", COMPLEX=b"T",
)


class RefError(Exception):
    pass


class RefEOF(RefError):
    pass


class Py2Str(object):
    """Marker for a value a Python 2 writer would emit as PY2STRING."""

    def __init__(self, data):
        self.data = data


class Py2Unicode(object):
    def __init__(self, text):
        self.text = text


class Py2Long(object):
    def __init__(self, n):
        self.n = n


class Chan(object):
    def __init__(self, id):
        self.id = id


def _i4(n):
    return struct.pack("!i", n)


def _enc(v, out):
    t = type(v)
    if v is None:
        out.append(b"L")
    elif t is bool:
        out.append(b"R" if v else b"C")
    elif t is int:
        if INT_MIN <= v <= INT_MAX:
            out.append(b"F" + _i4(v))
        else:
            s = _decimal(v)
            out.append(b"H" + _i4(len(s)) + s)
    elif t is float:
        out.append(b"D" + struct.pack("!d", v))
    elif t is complex:
        out.append(b"T" + struct.pack("!dd", v.real, v.imag))
    elif t is bytes:
        out.append(b"A" + _i4(len(v)) + v)
    elif t is str:
        b = v.encode("utf-8")
        out.append(b"N" + _i4(len(b)) + b)
    elif t is list:
        out.append(b"K" + _i4(len(v)))
        for i, item in enumerate(v):
            _enc(i, out)
            _enc(item, out)
            out.append(b"P")
    elif t is dict:
        out.append(b"J")
        for k, item in v.items():
            _enc(k, out)
            _enc(item, out)
            out.append(b"P")
    elif t is tuple:
        for item in v:
            _enc(item, out)
        out.append(b"@" + _i4(len(v)))
    elif t is set:
        for item in v:
            _enc(item, out)
        out.append(b"O" + _i4(len(v)))
    elif t is frozenset:
        for item in v:
            _enc(item, out)
        out.append(b"E" + _i4(len(v)))
    elif t is Py2Str:
        out.append(b"M" + _i4(len(v.data)) + v.data)
    elif t is Py2Unicode:
        b = v.text.encode("utf-8")
        out.append(b"S" + _i4(len(b)) + b)
    elif t is Py2Long:
        if INT_MIN <= v.n <= INT_MAX:
            out.append(b"G" + _i4(v.n))
        else:
            s = _decimal(v.n)
            out.append(b"I" + _i4(len(s)) + s)
    elif t is Chan:
        out.append(b"B" + _i4(v.id))
    else:
        raise RefError("unsupported %r" % (t,))


def _decimal(n):
    """Decimal text of an int of any size without relying on the str-digit limit."""
    try:
        return str(n).encode("ascii")
    except ValueError:
        pass
    neg = n < 0
    n = abs(n)
    chunks = []
    base = 10 ** 4000
    while n:
        n, rem = divmod(n, base)
        chunks.append(rem)
    s = str(chunks[-1])
    for c in reversed(chunks[:-1]):
        s += str(c).rjust(4000, "0")
    return (("-" if neg else "") + s).encode("ascii")


def _parse_decimal(s):
    try:
        return int(s)
    except ValueError:
        txt = s.decode("ascii").strip()
        neg = txt.startswith("-")
        if txt[:1] in "+-":
            txt = txt[1:]
        if not txt.isdigit():
            raise RefError("bad decimal")
        n = 0
        for i in range(0, len(txt), 4000):
            part = txt[i:i + 4000]
            n = n * 10 ** len(part) + int(part)
        return -n if neg else n


def encode(v, versioned=True):
    out = [VERSION] if versioned else []
    _enc(v, out)
    out.append(b"Q")
    return b"".join(out)


class _R(object):
    def __init__(self, data):
        self.d = data
        self.p = 0

    def read(self, n):
        if n < 0:
            raise RefError("negative length")
        if self.p + n > len(self.d):
            raise RefEOF("short")
        b = self.d[self.p:self.p + n]
        self.p += n
        return b

    def i4(self):
        return struct.unpack("!i", self.read(4))[0]


def decode(data, versioned=True, py2str_as_py3str=False, py3str_as_py2str=False, max_alloc=None):
    """Returns the value.  Raises RefEOF if the data merely ends early, RefError
    for malformed input.  If max_alloc is given, a length field exceeding it
    raises RefError('alloc') *before* allocating (dry-run use)."""
    r = _R(data)
    if versioned:
        if r.read(1) != VERSION:
            raise RefError("version")
    stack = []
    while True:
        op = r.read(1)
        if op == b"Q":
            if len(stack) != 1:
                raise RefError("stack size at STOP")
            return stack[0]
        if op == b"L":
            stack.append(None)
        elif op == b"R":
            stack.append(True)
        elif op == b"C":
            stack.append(False)
        elif op in (b"F", b"G"):
            stack.append(r.i4())
        elif op in (b"H", b"I"):
            n = r.i4()
            s = r.read(n)
            txt = s.rstrip(b"L")
            stack.append(_parse_decimal(txt))
        elif op == b"D":
            stack.append(struct.unpack("!d", r.read(8))[0])
        elif op == b"T":
            a, b = struct.unpack("!dd", r.read(16))
            stack.append(complex(a, b))
        elif op == b"A":
            stack.append(r.read(r.i4()))
        elif op == b"N":
            b = r.read(r.i4())
            if py3str_as_py2str:
                stack.append(b)
            else:
                try:
                    stack.append(b.decode("utf-8"))
                except UnicodeDecodeError:
                    raise RefError("utf8")
        elif op == b"M":
            b = r.read(r.i4())
            stack.append(b.decode("latin-1") if py2str_as_py3str else b)
        elif op == b"S":
            try:
                stack.append(r.read(r.i4()).decode("utf-8"))
            except UnicodeDecodeError:
                raise RefError("utf8")
        elif op == b"K":
            n = r.i4()
            if n < 0:
                raise RefError("negative list length")
            if max_alloc is not None and n > max_alloc:
                raise RefError("alloc")
            stack.append([None] * n)
        elif op == b"J":
            stack.append({})
        elif op == b"P":
            if len(stack) < 3:
                raise RefError("setitem underflow")
            v = stack.pop()
            k = stack.pop()
            c = stack[-1]
            if type(c) is list:
                if type(k) is not int or not (0 <= k < len(c)):
                    raise RefError("list index")
                c[k] = v
            elif type(c) is dict:
                try:
                    c[k] = v
                except TypeError:
                    raise RefError("unhashable key")
            else:
                raise RefError("setitem on non-container")
        elif op in (b"@", b"O", b"E"):
            n = r.i4()
            if n < 0 or n > len(stack):
                raise RefError("collection length")
            items = stack[len(stack) - n:] if n else []
            del stack[len(stack) - n:]
            try:
                stack.append({b"@": tuple, b"O": set, b"E": frozenset}[op](items))
            except TypeError:
                raise RefError("unhashable member")
        elif op == b"B":
            stack.append(Chan(r.i4()))
        else:
            raise RefError("unknown opcode %r" % (op,))


# ---------------------------------------------------------------------------
# frames

MSG = dict(STATUS=0, RECONFIGURE=1, GATEWAY_TERMINATE=2, CHANNEL_EXEC=3, CHANNEL_DATA=4,
           CHANNEL_CLOSE=5, CHANNEL_CLOSE_ERROR=6, CHANNEL_LAST_MESSAGE=7)
MSGNAME = dict((v, k) for k, v in MSG.items())


def frame(code, chan=0, payload=b""):
    return struct.pack("!bii", code, chan, len(payload)) + payload


def parse_frames(data):
    """-> (frames, rest).  frames: list of (code, chan, payload, start, end)."""
    out = []
    p = 0
    n = len(data)
    while n - p >= 9:
        code, chan, ln = struct.unpack("!bii", data[p:p + 9])
        if ln < 0:
            raise RefError("negative payload length at %d" % p)
        if n - p - 9 < ln:
            break
        out.append((code, chan, data[p + 9:p + 9 + ln], p, p + 9 + ln))
        p += 9 + ln
    return out, data[p:]
